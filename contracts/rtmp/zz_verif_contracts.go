//go:build verif

package rtmp

// Contracts for pkg/rtmp (C04, C08, C17, C18). Checked by /verif/govc; see /verif/DESIGN.md §2.2.

// ---- object facts -----------------------------------------------------------------------------------------------
//@ type ServerSession nonnil packer conn chunkComposer
//@ type MessagePacker nonnil b
//@ type StreamMsg nonnil buff
//@ type ChunkComposer nonnil csid2stream
//@ type Buffer invariant [C17.buf] 0 <= self.readPos && self.readPos <= self.writePos && self.writePos <= len(self.core) && cap(self.core) == len(self.core)

// ---- chunk header spec functions (RTMP 1.0 §5.3.1) ----------------------------------------------------------------
//@ pure be24(b []byte, i int) uint32 = uint32(b[i])<<16 | uint32(b[i+1])<<8 | uint32(b[i+2])
//@ pure be32(b []byte, i int) uint32 = uint32(b[i])<<24 | uint32(b[i+1])<<16 | uint32(b[i+2])<<8 | uint32(b[i+3])
//@ pure le32(b []byte, i int) uint32 = uint32(b[i]) | uint32(b[i+1])<<8 | uint32(b[i+2])<<16 | uint32(b[i+3])<<24
//@ pure bhl(csid int) int = csid <= 63 ? 1 : (csid <= 319 ? 2 : 3)
//@ pure csidOf(b []byte) int = b[0]&0x3f >= 2 ? int(b[0]&0x3f) : (b[0]&0x3f == 0 ? 64 + int(b[1]) : 64 + int(b[1]) + 256*int(b[2]))

// calcHeader is only called with prevHeader == nil (first chunk, format 0) or prevHeader == header
// (continuation, format 3); the call-site obligation pre:calcHeader checks that.
//@ func calcHeader
//@   props C08 C04
//@   requires prevHeader == nil || prevHeader == header
//@   requires 2 <= header.Csid && header.Csid <= 65599 && len(out) >= 18
//@   let m = bhl(header.Csid)
//@   let ts = header.TimestampAbs
//@   let ext = ts >= 0xFFFFFF
//@   ensures [C08.csid]   csidOf(out) == header.Csid
//@   ensures [C08.fmt]    out[0]>>6 == (prevHeader == nil ? 0 : 3)
//@   ensures [C08.f0.ts]  prevHeader == nil ==> be24(out, m) == (ext ? 0xFFFFFF : ts)
//@   ensures [C08.f0.len] prevHeader == nil ==> be24(out, m+3) == header.MsgLen & 0xFFFFFF && out[m+6] == header.MsgTypeId && le32(out, m+7) == uint32(header.MsgStreamId)
//@   ensures [C08.f0.ext] prevHeader == nil ==> result == m + 11 + (ext ? 4 : 0) && (ext ==> be32(out, m+11) == ts)
//@   ensures [C08.f3.ext] prevHeader != nil ==> result == m + (ext ? 4 : 0) && (ext ==> be32(out, m) == ts)
//@ end

// ---- send buffer (C17: "forwards an RTMP publisher's URL parameters whatever their length") ------------------------
//@ func NewBuffer
//@   props C17 C04
//@   requires 0 <= n && n <= 1<<32
//@   ensures [C17.newbuf] len(result.core) == n && result.readPos == 0 && result.writePos == 0
//@ end

//@ func (*Buffer).grow
//@   props C17 C04
//@   requires 0 <= n && n <= 1<<32
//@   ensures [C17.grow.room] len(b.core) - b.writePos >= n
//@   ensures [C17.grow.len]  b.writePos - b.readPos == old(b.writePos - b.readPos)
//@   ensures [C17.grow.data] forall i in [0, b.writePos - b.readPos) :: b.core[b.readPos+i] == old(b.core[b.readPos+i])
//@ end

//@ func (*Buffer).Write
//@   props C17 C04
//@   requires len(p) <= 1<<32
//@   ensures [C17.write.len]  b.writePos - b.readPos == old(b.writePos - b.readPos) + len(p) && result0 == len(p)
//@   ensures [C17.write.data] forall i in [0, len(p)) :: b.core[b.readPos + old(b.writePos - b.readPos) + i] == old(p[i])
//@   ensures [C17.write.keep] forall i in [0, old(b.writePos - b.readPos)) :: b.core[b.readPos+i] == old(b.core[b.readPos+i])
//@ end

//@ func (*Buffer).WriteByte
//@   props C17 C04
//@   ensures [C17.writebyte] b.writePos - b.readPos == old(b.writePos - b.readPos) + 1 && b.core[b.writePos-1] == c
//@ end

// ---- message -> chunks (C08 encoder side, C01 "once-only conversion equals the encoder spec") -----------------------
// Chunk i starts at out[old(index)]: a header of headLen bytes (format 0 for i == 0, format 3 afterwards, as
// calcHeader's contract describes) followed by the next slice of the message.
//@ func message2Chunks
//@   props C08 C01
//@   mode int
//@   modular
//@   requires header != nil && prevHeader == nil && chunkSize >= 1 && chunkSize <= 1<<24
//@   requires 1 <= len(message) && len(message) < 1<<24 && 2 <= header.Csid && header.Csid <= 65599
//@   let m = bhl(header.Csid)
//@   let extn = header.TimestampAbs >= 0xFFFFFF ? 4 : 0
//@   loop 1 invariant 0 <= i && i <= numOfChunk && 0 <= index && index <= i*(chunkSize+18) && (i == numOfChunk ==> index <= len(out)) && fresh(out)
//@   loop 1 invariant (i == 0) == (prevHeader == nil) && (i > 0 ==> prevHeader == header)
//@   loop 1 invariant [C08.chunks.len] thorough index == (i == 0 ? 0 : m + 11 + extn + (i-1)*(m + extn) + i*chunkSize)
//@   loop 1 decreases numOfChunk - i
//@   loop 1 step [C08.chunk.hdr]  headLen == (old(i) == 0 ? m + 11 + extn : m + extn)
//@   loop 1 step [C08.chunk.size] index - old(index) - headLen == (old(i) == numOfChunk-1 ? lastChunkSize : chunkSize)
//@   loop 1 step [C08.chunk.body] forall j in [0, index - old(index) - headLen) :: out[old(index)+headLen+j] == message[old(i)*chunkSize+j]
//@   ensures [C08.fresh] fresh(result)
//@   ensures [C08.total] thorough len(result) == len(message) + m + 11 + extn + (numOfChunk-1)*(m+extn)
//@ end
