//go:build verif

package base

// Contracts for pkg/base (C11 WebSocket framing, C01 merge writer). Checked by /verif/govc.

// RFC 6455 §5.2: 7-bit length, or 126 + 16-bit big-endian, or 127 + 64-bit big-endian; minimal form required.
//@ pure wsDeclaredLen(b []byte) uint64 = b[1]&0x7F < 126 ? uint64(b[1]&0x7F) : (b[1]&0x7F == 126 ? uint64(b[2])<<8 | uint64(b[3]) : uint64(b[2])<<56 | uint64(b[3])<<48 | uint64(b[4])<<40 | uint64(b[5])<<32 | uint64(b[6])<<24 | uint64(b[7])<<16 | uint64(b[8])<<8 | uint64(b[9]))

//@ type BasicHttpSubSession nonnil conn

//@ func MakeWsFrameHeader
//@   props C11
//@   requires wsHeader.Opcode <= 15
//@   let pl = wsHeader.PayloadLength
//@   let base = pl < 126 ? 2 : (pl <= 65535 ? 4 : 10)
//@   ensures [C11.ws.size]    len(buf) == base + (wsHeader.Masked ? 4 : 0)
//@   ensures [C11.ws.len]     wsDeclaredLen(buf) == pl
//@   ensures [C11.ws.minimal] (buf[1]&0x7F == 126 ==> pl >= 126) && (buf[1]&0x7F == 127 ==> pl > 65535)
//@   ensures [C11.ws.flags]   (buf[0]&0x80 != 0) == wsHeader.Fin && (buf[0]&0x40 != 0) == wsHeader.Rsv1 && (buf[0]&0x20 != 0) == wsHeader.Rsv2 && (buf[0]&0x10 != 0) == wsHeader.Rsv3 && buf[0]&0x0F == uint8(wsHeader.Opcode) && (buf[1]&0x80 != 0) == wsHeader.Masked
//@   ensures [C11.ws.mask]    wsHeader.Masked ==> uint32(buf[base]) | uint32(buf[base+1])<<8 | uint32(buf[base+2])<<16 | uint32(buf[base+3])<<24 == wsHeader.MaskKey
//@   ensures [C11.ws.fresh]   fresh(buf)
//@ end

// Each unit lal writes to a WebSocket subscriber is one complete unmasked binary FIN frame whose
// declared length is the unit's length (the header itself is MakeWsFrameHeader's contract).
//@ func (*BasicHttpSubSession).Write
//@   props C11
//@   assert after "session.write(MakeWsFrameHeader(wsHeader))" [C11.ws.frame] wsHeader.PayloadLength == uint64(len(b)) && wsHeader.Fin && !wsHeader.Rsv1 && !wsHeader.Rsv2 && !wsHeader.Rsv3 && wsHeader.Opcode == 2 && !wsHeader.Masked
//@ end

// ---- merge writer (C01): buffers are queued whole, in order, and handed on all at once ------------------------------
// Without a ghost log of the onWritev calls the contract speaks about the queue only: what Write and
// Flush leave in it. (bs == nil && currSize == 0 after a flush means the whole queue was handed to onWritev:
// flush passes w.bs itself.)
//@ func (*MergeWriter).Write
//@   props C01
//@   requires w.currSize >= 0 && len(b) <= 1<<32 && w.currSize <= 1<<40 && w.onWritev != nil
//@   ensures [C01.mw.buffered] old(w.currSize) + len(b) < w.size ==> w.currSize == old(w.currSize) + len(b) && len(w.bs) == old(len(w.bs)) + 1 && w.bs[len(w.bs)-1] == b
//@   ensures [C01.mw.keep]     old(w.currSize) + len(b) < w.size ==> forall i in [0, old(len(w.bs))) :: w.bs[i] == old(w.bs[i])
//@   ensures [C01.mw.flushed]  old(w.currSize) + len(b) >= old(w.size) ==> w.currSize == 0 && isnil(w.bs)
//@ end

//@ func (*MergeWriter).Flush
//@   props C01
//@   requires w.onWritev != nil
//@   ensures [C01.mw.flush]      old(w.currSize) > 0 ==> w.currSize == 0 && isnil(w.bs)
//@   ensures [C01.mw.flush.noop] old(w.currSize) <= 0 ==> w.currSize == old(w.currSize) && w.bs == old(w.bs)
//@ end

//@ func (*MergeWriter).flush
//@   props C01
//@   requires w.onWritev != nil
//@   loop 1 invariant true
//@   ensures [C01.mw.doflush] w.currSize == 0 && isnil(w.bs) && w.size == old(w.size)
//@ end
