//go:build verif

package rtsp

// Contracts for pkg/rtsp. Checked by /verif/govc.

// Session plumbing used from pkg/logic: bodies not followed from there (assumed panic-free, listed as trusted).
//@ func (*PullSession).Dispose
//@   trusted
//@ end
//@ func (*PullSession).UniqueKey
//@   trusted
//@ end
