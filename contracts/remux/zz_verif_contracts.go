//go:build verif

package remux

// Contracts for pkg/remux (C02 GOP cache ring, C01 per-message conversions). Checked by /verif/govc.

// ---- GOP cache: ring of gopNum+1 slots, [first, last) occupied -----------------------------------------------------
//@ type GopCache invariant [C02.ring] self.gopSize == len(self.gopRing) && self.gopSize >= 1 && self.gopSize <= 1<<20 && 0 <= self.gopRingFirst && self.gopRingFirst < self.gopSize && 0 <= self.gopRingLast && self.gopRingLast < self.gopSize
//@ pure gopCnt(gc *GopCache) int = (gc.gopRingLast + gc.gopSize - gc.gopRingFirst) % gc.gopSize

//@ func NewGopCache
//@   props C02
//@   mode int
//@   requires 0 <= gopNum && gopNum < 1<<20
//@   ensures [C02.new] gopCnt(result) == 0 && result.gopSize == gopNum + 1 && result.singleGopMaxFrameNum == singleGopMaxFrameNum && isnil(result.VideoSeqHeader) && isnil(result.AacSeqHeader)
//@ end

//@ func (*GopCache).GetGopCount
//@   props C02
//@   mode int
//@   ensures [C02.count] result == gopCnt(gc) && 0 <= result && result <= gc.gopSize - 1
//@ end

//@ func (*GopCache).GetGopDataAt
//@   props C02
//@   mode int
//@   ensures [C02.at.range] (pos < 0 || pos >= gopCnt(gc)) ==> isnil(result)
//@   ensures [C02.at.order] 0 <= pos && pos < gopCnt(gc) ==> result == gc.gopRing[(gc.gopRingFirst + pos) % gc.gopSize].data
//@ end

//@ func (*GopCache).feedNewGop
//@   props C02
//@   mode int
//@   requires gc.gopSize > 1
//@   ensures [C02.newgop.count] gopCnt(gc) == (old(gopCnt(gc)) == gc.gopSize - 1 ? gc.gopSize - 1 : old(gopCnt(gc)) + 1)
//@   ensures [C02.newgop.evict] gc.gopRingFirst == (old(gopCnt(gc)) == gc.gopSize - 1 ? (old(gc.gopRingFirst) + 1) % gc.gopSize : old(gc.gopRingFirst))
//@   ensures [C02.newgop.key]   len(gc.gopRing[old(gc.gopRingLast)].data) == 1
//@   ensures [C02.newgop.others] forall k in [0, gc.gopSize) :: k != old(gc.gopRingLast) ==> len(gc.gopRing[k].data) == old(len(gc.gopRing[k].data))
//@   ensures [C02.newgop.size]  gc.gopSize == old(gc.gopSize) && gc.singleGopMaxFrameNum == old(gc.singleGopMaxFrameNum)
//@ end

//@ func (*GopCache).feedLastGop
//@   props C02
//@   mode int
//@   let lastPos = (gc.gopRingLast - 1 + gc.gopSize) % gc.gopSize
//@   ensures [C02.last.ring]   gc.gopRingFirst == old(gc.gopRingFirst) && gc.gopRingLast == old(gc.gopRingLast) && gc.gopSize == old(gc.gopSize)
//@   ensures [C02.last.empty]  old(gopCnt(gc)) == 0 ==> result && forall k in [0, gc.gopSize) :: len(gc.gopRing[k].data) == old(len(gc.gopRing[k].data))
//@   ensures [C02.last.others] forall k in [0, gc.gopSize) :: k != lastPos ==> len(gc.gopRing[k].data) == old(len(gc.gopRing[k].data))
//@   ensures [C02.last.append] old(gopCnt(gc)) > 0 && result ==> len(gc.gopRing[lastPos].data) == old(len(gc.gopRing[lastPos].data)) + 1
//@   ensures [C02.last.cap]    gc.singleGopMaxFrameNum > 0 && old(gopCnt(gc)) > 0 && old(len(gc.gopRing[lastPos].data)) <= gc.singleGopMaxFrameNum ==> len(gc.gopRing[lastPos].data) <= gc.singleGopMaxFrameNum
//@ end

//@ func (*GopCache).Clear
//@   props C02 C16
//@   mode int
//@   ensures [C02.clear] gopCnt(gc) == 0 && isnil(gc.VideoSeqHeader) && isnil(gc.AacSeqHeader) && isnil(gc.MetadataEnsureWithSetDataFrame) && isnil(gc.MetadataEnsureWithoutSetDataFrame)
//@ end
