#!/bin/bash
# builds the verifier from /verif/govc with the module cache only (offline)
set -eu
cd "$(dirname "$0")"
export GOFLAGS=-mod=mod GOPROXY=off GOSUMDB=off GOTOOLCHAIN=local
mkdir -p bin evidence
(cd govc && go build -o ../bin/govc .)
echo "govc built"
