package main

import (
	"fmt"
	"go/token"
	"go/types"
	"math/big"
	"strconv"
	"strings"

	"golang.org/x/tools/go/ssa"
)

// Ctx evaluates contract expressions against a symbolic state.
type Ctx struct {
	fr      *Frame
	ex      *Exec
	st      *State // current heap state
	old     *State // state for old(...)
	oldVals map[string]*Val
	pkg     *types.Package
	vals    map[string]*Val // explicit bindings (callee params, results, quantifier vars, lets)
	types   map[string]types.Type
	lookup  func(name string) (*Val, types.Type, bool) // frame-based identifier resolution
	goal    bool                                       // expression is being proved: top-level foralls are skolemised
	facts   bool                                       // loads may add ground heap facts (not under a binder)
	spec    *FuncSpec
	inOld   bool
	depth   int
	preSt   *State // state before the enclosing loop was entered
	entrySt *State // function entry state
}

// TV: typed symbolic value or untyped constant.
type TV struct {
	V   *Val
	T   types.Type
	K   *big.Int // untyped integer constant
	B   *bool    // untyped boolean constant
	S   *string  // string literal
	Nil bool
	CK  *condK // conditional between two untyped integer constants (typed on demand)
}

type condK struct {
	c    string
	a, b *big.Int
}

func (cx *Ctx) fail(format string, a ...interface{}) {
	panic(fmt.Errorf("contract: "+format, a...))
}

func (cx *Ctx) setResult(fn *ssa.Function, tuple *Val) {
	res := fn.Signature.Results()
	for i := 0; i < res.Len(); i++ {
		n := fmt.Sprintf("result%d", i)
		cx.vals[n] = tuple.C[i]
		cx.types[n] = res.At(i).Type()
		if res.At(i).Name() != "" && res.At(i).Name() != "_" {
			cx.vals[res.At(i).Name()] = tuple.C[i]
			cx.types[res.At(i).Name()] = res.At(i).Type()
		}
	}
	if res.Len() == 1 {
		cx.vals["result"] = tuple.C[0]
		cx.types["result"] = res.At(0).Type()
	}
}

func (cx *Ctx) child() *Ctx {
	n := *cx
	n.vals = map[string]*Val{}
	n.types = map[string]types.Type{}
	for k, v := range cx.vals {
		n.vals[k] = v
	}
	for k, v := range cx.types {
		n.types[k] = v
	}
	return &n
}

var tInt = types.Typ[types.Int]
var tBool = types.Typ[types.Bool]

func (cx *Ctx) evalBool(e CExpr) string {
	tv := cx.eval(e)
	if tv.B != nil {
		if *tv.B {
			return "true"
		}
		return "false"
	}
	if tv.V == nil || tv.V.C != nil {
		cx.fail("expression %s is not boolean", e)
	}
	return tv.V.T
}

func (cx *Ctx) evalInt(e CExpr) string {
	tv := cx.eval(e)
	if tv.CK != nil {
		tv = cx.typed(tv, tInt)
	}
	tv = cx.typed(tv, tInt)
	it := intTOf(tv.T)
	if it == nil {
		cx.fail("expression %s is not an integer", e)
	}
	return cx.ex.ar.conv(*it, idxT, tv.V.T)
}

// typed converts an untyped constant to type t.
func (cx *Ctx) typed(tv TV, t types.Type) TV {
	if tv.CK != nil {
		a := cx.typed(TV{K: tv.CK.a}, t)
		b := cx.typed(TV{K: tv.CK.b}, t)
		return TV{V: sv(ite(tv.CK.c, a.V.T, b.V.T)), T: t}
	}
	if tv.K != nil {
		it := intTOf(t)
		if it == nil {
			if isFloat64(t) {
				f, _ := new(big.Float).SetInt(tv.K).Float64()
				return TV{V: sv(f64Lit(f)), T: t}
			}
			if b, ok := t.Underlying().(*types.Basic); ok && b.Info()&types.IsFloat != 0 {
				return TV{V: sv(cx.ex.floatConst(tv.K.String())), T: t}
			}
			cx.fail("constant %s used as %s", tv.K, t)
		}
		return TV{V: sv(cx.ex.ar.lit(*it, tv.K)), T: t}
	}
	if tv.B != nil {
		if *tv.B {
			return TV{V: sv("true"), T: tBool}
		}
		return TV{V: sv("false"), T: tBool}
	}
	if tv.S != nil {
		return TV{V: cx.ex.strConst(*tv.S), T: types.Typ[types.String]}
	}
	if tv.Nil {
		return TV{V: cx.ex.ls.zero(cx.ex.ls.of(t)), T: t}
	}
	return tv
}

func (cx *Ctx) resolveType(s string) types.Type {
	s = strings.TrimSpace(s)
	switch {
	case strings.HasPrefix(s, "[]"):
		return types.NewSlice(cx.resolveType(s[2:]))
	case strings.HasPrefix(s, "*"):
		return types.NewPointer(cx.resolveType(s[1:]))
	case strings.HasPrefix(s, "["):
		i := strings.Index(s, "]")
		n, err := strconv.Atoi(s[1:i])
		if err != nil {
			cx.fail("bad array type %s", s)
		}
		return types.NewArray(cx.resolveType(s[i+1:]), int64(n))
	}
	if s == "byte" {
		return types.Typ[types.Uint8]
	}
	for _, b := range types.Typ {
		if b.Name() == s && b.Kind() != types.Invalid {
			return b
		}
	}
	if s == "error" {
		return types.Universe.Lookup("error").Type()
	}
	pkg := cx.pkg
	name := s
	if i := strings.Index(s, "."); i >= 0 {
		pn := s[:i]
		name = s[i+1:]
		pkg = nil
		for _, imp := range cx.pkg.Imports() {
			if imp.Name() == pn {
				pkg = imp
			}
		}
		if pkg == nil {
			for path, sp := range cx.ex.P.pkgByPath {
				if strings.HasSuffix(path, "/"+pn) || path == pn {
					pkg = sp.Pkg
				}
			}
		}
		if pkg == nil {
			cx.fail("unknown package in type %s", s)
		}
	}
	if obj := pkg.Scope().Lookup(name); obj != nil {
		if tn, ok := obj.(*types.TypeName); ok {
			return tn.Type()
		}
	}
	cx.fail("unknown type %s", s)
	return nil
}

func (cx *Ctx) ident(name string) TV {
	if cx.inOld && cx.oldVals != nil {
		if v, ok := cx.oldVals[name]; ok {
			t := cx.types[name]
			if t == nil {
				if _, tt, ok := cx.lookupName(name); ok {
					t = tt
				}
			}
			return TV{V: v, T: t}
		}
	}
	if v, ok := cx.vals[name]; ok {
		return TV{V: v, T: cx.types[name]}
	}
	if name == "nil" {
		return TV{Nil: true}
	}
	if cx.spec != nil {
		if e, ok := cx.spec.Lets[name]; ok {
			return cx.eval(e)
		}
	}
	if v, t, ok := cx.lookupName(name); ok {
		return TV{V: v, T: t}
	}
	// package-level constant
	if cx.pkg != nil {
		if obj := cx.pkg.Scope().Lookup(name); obj != nil {
			switch o := obj.(type) {
			case *types.Const:
				return cx.constTV(o)
			case *types.Var:
				// global variable: load
				if sp := cx.ex.P.pkgByPath[o.Pkg().Path()]; sp != nil {
					if gv, ok := sp.Members[o.Name()].(*ssa.Global); ok {
						if c := cx.ex.P.constGlobals[gv]; c != nil {
							return TV{V: cx.ex.constVal(c), T: o.Type()}
						}
						l := cx.ex.ls.of(o.Type())
						return TV{V: cx.ex.load(cx.state(), cx.ex.globAddr(gv.String()), l, "", cx.facts), T: o.Type()}
					}
				}
				g := cx.ex.globAddr(o.Pkg().Path() + "." + o.Name())
				l := cx.ex.ls.of(o.Type())
				return TV{V: cx.ex.load(cx.state(), g, l, "", cx.facts), T: o.Type()}
			}
		}
	}
	cx.fail("unknown identifier %s", name)
	return TV{}
}

func (cx *Ctx) constTV(o *types.Const) TV {
	v := o.Val()
	switch v.Kind().String() {
	case "Int":
		bi, _ := new(big.Int).SetString(v.ExactString(), 10)
		if b, ok := o.Type().Underlying().(*types.Basic); ok && b.Info()&types.IsUntyped == 0 {
			return cx.typed(TV{K: bi}, o.Type())
		}
		return TV{K: bi}
	case "Bool":
		b := v.ExactString() == "true"
		return TV{B: &b}
	case "String":
		s, _ := strconv.Unquote(v.ExactString())
		return TV{S: &s}
	}
	cx.fail("unsupported constant %s", o.Name())
	return TV{}
}

func (cx *Ctx) lookupName(name string) (*Val, types.Type, bool) {
	if cx.lookup != nil {
		return cx.lookup(name)
	}
	return nil, nil, false
}

func (cx *Ctx) state() *State {
	if cx.inOld && cx.old != nil {
		return cx.old
	}
	return cx.st
}

func (cx *Ctx) eval(e CExpr) TV {
	ex := cx.ex
	ar := ex.ar
	switch x := e.(type) {
	case *CLit:
		switch {
		case x.Int != nil:
			return TV{K: x.Int}
		case x.Bool != nil:
			return TV{B: x.Bool}
		case x.Flt != nil:
			return TV{V: sv(f64Lit(*x.Flt)), T: types.Typ[types.Float64]}
		default:
			return TV{S: x.Str}
		}
	case *CIdent:
		return cx.ident(x.Name)
	case *CSel:
		// package-qualified constant?
		if id, ok := x.X.(*CIdent); ok {
			if _, bound := cx.vals[id.Name]; !bound {
				if _, _, isVar := cx.lookupName(id.Name); !isVar && cx.pkg != nil {
					for _, imp := range cx.pkg.Imports() {
						if imp.Name() == id.Name {
							if c, ok := imp.Scope().Lookup(x.Name).(*types.Const); ok {
								return cx.constTV(c)
							}
						}
					}
				}
			}
		}
		b := cx.eval(x.X)
		return cx.selField(b, x.Name)
	case *CStar:
		b := cx.eval(x.X)
		pt, ok := b.T.Underlying().(*types.Pointer)
		if !ok {
			cx.fail("dereference of non-pointer %s", x.X)
		}
		return TV{V: ex.load(cx.state(), b.V.T, ex.ls.of(pt.Elem()), "", cx.facts), T: pt.Elem()}
	case *CIndex:
		b := cx.eval(x.X)
		i := cx.typed(cx.eval(x.I), tInt)
		it := intTOf(i.T)
		if it == nil {
			cx.fail("non-integer index in %s", e)
		}
		iv := ar.conv(*it, idxT, i.V.T)
		switch t := b.T.Underlying().(type) {
		case *types.Slice:
			el := ex.ls.of(t.Elem())
			return TV{V: ex.load(cx.state(), ex.elemAddr(b.V, iv), el, "", cx.facts), T: t.Elem()}
		case *types.Basic:
			return TV{V: sv(ex.loadLeaf(cx.state(), ex.s8Key(), ex.elemAddr(b.V, iv), cx.facts)), T: types.Typ[types.Uint8]}
		case *types.Array:
			l := ex.ls.of(t.Elem())
			r := b.V.C[len(b.V.C)-1]
			for k := len(b.V.C) - 2; k >= 0; k-- {
				r = ex.iteVal(l, eq(iv, ex.idx(int64(k))), b.V.C[k], r)
			}
			return TV{V: r, T: t.Elem()}
		case *types.Pointer:
			if at, ok := t.Elem().Underlying().(*types.Array); ok {
				return TV{V: ex.load(cx.state(), "(elem "+b.V.T+" "+iv+")", ex.ls.of(at.Elem()), "", cx.facts), T: at.Elem()}
			}
		}
		cx.fail("cannot index %s (type %s)", x.X, b.T)
	case *CSlice:
		b := cx.eval(x.X)
		var base, off, ln, cp string
		isStr := false
		switch b.T.Underlying().(type) {
		case *types.Slice:
			base, off, ln, cp = b.V.C[0].T, b.V.C[1].T, b.V.C[2].T, b.V.C[3].T
		case *types.Basic:
			base, off, ln, cp = b.V.C[0].T, b.V.C[1].T, b.V.C[2].T, b.V.C[2].T
			isStr = true
		default:
			cx.fail("cannot slice %s", x.X)
		}
		lo, hi := ex.idx(0), ln
		if x.Lo != nil {
			lo = cx.evalInt(x.Lo)
		}
		if x.Hi != nil {
			hi = cx.evalInt(x.Hi)
		}
		if isStr {
			return TV{V: &Val{C: []*Val{sv(base), sv(ar.add(idxT, off, lo)), sv(ar.sub(idxT, hi, lo))}}, T: b.T}
		}
		return TV{V: &Val{C: []*Val{sv(base), sv(ar.add(idxT, off, lo)), sv(ar.sub(idxT, hi, lo)), sv(ar.sub(idxT, cp, lo))}}, T: b.T}
	case *CConv:
		t := cx.resolveType(x.Type)
		v := cx.eval(x.X)
		return cx.convert(v, t)
	case *CCall:
		return cx.call(x)
	case *CUnary:
		if x.Op == "&" {
			// address of a slice element
			ix, ok := x.X.(*CIndex)
			if !ok {
				cx.fail("& is supported on slice elements only: %s", e)
			}
			b := cx.eval(ix.X)
			st, isSl := b.T.Underlying().(*types.Slice)
			if !isSl {
				cx.fail("& is supported on slice elements only: %s", e)
			}
			i := cx.typed(cx.eval(ix.I), tInt)
			it := intTOf(i.T)
			if it == nil {
				cx.fail("non-integer index in %s", e)
			}
			return TV{V: sv(ex.elemAddr(b.V, ar.conv(*it, idxT, i.V.T))), T: types.NewPointer(st.Elem())}
		}
		v := cx.eval(x.X)
		switch x.Op {
		case "!":
			if v.B != nil {
				b := !*v.B
				return TV{B: &b}
			}
			return TV{V: sv(not(v.V.T)), T: tBool}
		case "-":
			if v.K != nil {
				return TV{K: new(big.Int).Neg(v.K)}
			}
			it := intTOf(v.T)
			return TV{V: sv(ar.neg(*it, v.V.T)), T: v.T}
		case "+":
			return v
		case "^":
			if v.K != nil {
				return TV{K: new(big.Int).Not(v.K)}
			}
			it := intTOf(v.T)
			return TV{V: sv(ar.bvnot(*it, v.V.T)), T: v.T}
		}
	case *CCond:
		c := cx.evalBool(x.C)
		a, b := cx.eval(x.A), cx.eval(x.B)
		if a.K != nil && b.K != nil {
			return TV{CK: &condK{c, a.K, b.K}}
		}
		a, b = cx.unify(a, b)
		if a.B != nil || b.B != nil {
			a, b = cx.typed(a, tBool), cx.typed(b, tBool)
		}
		l := ex.ls.of(a.T)
		return TV{V: ex.iteVal(l, c, a.V, b.V), T: a.T}
	case *CQuant:
		return cx.quant(x)
	case *CBinary:
		return cx.binary(x)
	}
	cx.fail("cannot evaluate %s", e)
	return TV{}
}

func (cx *Ctx) selField(b TV, name string) TV {
	ex := cx.ex
	t := b.T
	if t == nil {
		cx.fail("selector .%s on untyped value", name)
	}
	if pt, ok := t.Underlying().(*types.Pointer); ok {
		// pointer to struct: field load from the heap
		st, ok := pt.Elem().Underlying().(*types.Struct)
		if !ok {
			cx.fail("selector .%s on pointer to non-struct", name)
		}
		idx, emb := fieldIndex(st, name)
		if idx < 0 {
			if emb >= 0 {
				inner := TV{V: sv(fmt.Sprintf("(fld %s %d)", b.V.T, emb)), T: types.NewPointer(st.Field(emb).Type())}
				if ip, isPtr := st.Field(emb).Type().Underlying().(*types.Pointer); isPtr {
					_ = ip
					inner = cx.selFieldAt(b, pt.Elem(), emb)
				}
				return cx.selField(inner, name)
			}
			cx.fail("no field %s in %s", name, pt.Elem())
		}
		return cx.selFieldAt(b, pt.Elem(), idx)
	}
	if st, ok := t.Underlying().(*types.Struct); ok {
		idx, emb := fieldIndex(st, name)
		if idx < 0 {
			if emb >= 0 {
				return cx.selField(TV{V: b.V.C[emb], T: st.Field(emb).Type()}, name)
			}
			cx.fail("no field %s in %s", name, t)
		}
		return TV{V: b.V.C[idx], T: st.Field(idx).Type()}
	}
	_ = ex
	cx.fail("selector .%s on %s", name, t)
	return TV{}
}

func (cx *Ctx) selFieldAt(b TV, structT types.Type, idx int) TV {
	ex := cx.ex
	st := structT.Underlying().(*types.Struct)
	ft := st.Field(idx).Type()
	fl := ex.ls.of(ft)
	addr := fmt.Sprintf("(fld %s %d)", b.V.T, idx)
	if fl.Kind == LStruct || fl.Kind == LArray {
		// nested struct / array: value load
		return TV{V: ex.load(cx.state(), addr, fl, "", cx.facts), T: ft}
	}
	hint := ""
	if n := structNamed(structT); n != nil && ex.P.cleanField(n, idx) {
		hint = "H:" + fieldKey(n, idx)
	}
	return TV{V: ex.load(cx.state(), addr, fl, hint, cx.facts), T: ft}
}

// fieldIndex returns the index of the named field, or (-1, embIdx) when the
// name is promoted through an embedded field.
func fieldIndex(st *types.Struct, name string) (int, int) {
	for i := 0; i < st.NumFields(); i++ {
		if st.Field(i).Name() == name {
			return i, -1
		}
	}
	for i := 0; i < st.NumFields(); i++ {
		f := st.Field(i)
		if !f.Embedded() {
			continue
		}
		t := f.Type()
		if p, ok := t.Underlying().(*types.Pointer); ok {
			t = p.Elem()
		}
		if s2, ok := t.Underlying().(*types.Struct); ok {
			if j, e := fieldIndex(s2, name); j >= 0 || e >= 0 {
				return -1, i
			}
		}
	}
	return -1, -1
}

func (cx *Ctx) convert(v TV, t types.Type) TV {
	ex := cx.ex
	if v.K != nil || v.B != nil || v.S != nil || v.Nil || v.CK != nil {
		return cx.typed(v, t)
	}
	lf, lt := ex.ls.of(v.T), ex.ls.of(t)
	switch {
	case lf.Int != nil && lt.Int != nil:
		return TV{V: sv(ex.ar.conv(*lf.Int, *lt.Int, v.V.T)), T: t}
	case lf.Int != nil && isFloat64(t):
		if r, ok := ex.ar.f64FromInt(*lf.Int, v.V.T); ok {
			return TV{V: sv(r), T: t}
		}
		cx.fail("int -> float64 conversion needs the bit-vector encoding (drop `mode int`)")
	case lt.Int != nil && isFloat64(v.T):
		if r, ok := ex.ar.f64ToInt(*lt.Int, v.V.T); ok {
			return TV{V: sv(r), T: t}
		}
		cx.fail("float64 -> int conversion needs the bit-vector encoding (drop `mode int`)")
	case lf.Kind == lt.Kind:
		return TV{V: v.V, T: t}
	}
	cx.fail("unsupported conversion %s -> %s", v.T, t)
	return TV{}
}

// unify gives two operands a common type (untyped constants adopt the
// other operand's type).
func (cx *Ctx) unify(a, b TV) (TV, TV) {
	aU := a.K != nil || a.B != nil || a.S != nil || a.Nil || a.CK != nil
	bU := b.K != nil || b.B != nil || b.S != nil || b.Nil || b.CK != nil
	if aU && bU && (a.K != nil || a.CK != nil) && (b.K != nil || b.CK != nil) {
		return cx.typed(a, tInt), cx.typed(b, tInt)
	}
	switch {
	case aU && !bU:
		return cx.typed(a, b.T), b
	case bU && !aU:
		return a, cx.typed(b, a.T)
	}
	return a, b
}

func (cx *Ctx) binary(x *CBinary) TV {
	ex := cx.ex
	ar := ex.ar
	bconst := func(b bool) TV { return TV{B: &b} }
	switch x.Op {
	case "&&", "||", "==>":
		// defined(x) && e / defined(x) ==> e: e is not evaluated where x does not exist
		if c, ok := x.X.(*CCall); ok && c.Fun == "defined" && x.Op != "||" {
			if !cx.isDefined(c) {
				return bconst(x.Op == "==>")
			}
			return cx.eval(x.Y)
		}
		// polarity: the right side of ==> and both sides of && keep goal mode
		var a string
		if x.Op == "==>" {
			sub := *cx
			sub.goal = false
			a = sub.evalBool(x.X)
		} else if x.Op == "||" {
			sub := *cx
			sub.goal = false
			a = sub.evalBool(x.X)
			b := sub.evalBool(x.Y)
			return TV{V: sv(or(a, b)), T: tBool}
		} else {
			a = cx.evalBool(x.X)
		}
		b := cx.evalBool(x.Y)
		switch x.Op {
		case "&&":
			return TV{V: sv(and(a, b)), T: tBool}
		default:
			return TV{V: sv(implies(a, b)), T: tBool}
		}
	}
	sub := *cx
	sub.goal = false
	a, b := sub.eval(x.X), sub.eval(x.Y)
	// constant folding on untyped integers
	if a.K != nil && b.K != nil {
		r := new(big.Int)
		switch x.Op {
		case "+":
			return TV{K: r.Add(a.K, b.K)}
		case "-":
			return TV{K: r.Sub(a.K, b.K)}
		case "*":
			return TV{K: r.Mul(a.K, b.K)}
		case "/":
			return TV{K: r.Quo(a.K, b.K)}
		case "%":
			return TV{K: r.Rem(a.K, b.K)}
		case "<<":
			return TV{K: r.Lsh(a.K, uint(b.K.Int64()))}
		case ">>":
			return TV{K: r.Rsh(a.K, uint(b.K.Int64()))}
		case "&":
			return TV{K: r.And(a.K, b.K)}
		case "|":
			return TV{K: r.Or(a.K, b.K)}
		case "^":
			return TV{K: r.Xor(a.K, b.K)}
		case "&^":
			return TV{K: r.AndNot(a.K, b.K)}
		case "==":
			return bconst(a.K.Cmp(b.K) == 0)
		case "!=":
			return bconst(a.K.Cmp(b.K) != 0)
		case "<":
			return bconst(a.K.Cmp(b.K) < 0)
		case "<=":
			return bconst(a.K.Cmp(b.K) <= 0)
		case ">":
			return bconst(a.K.Cmp(b.K) > 0)
		case ">=":
			return bconst(a.K.Cmp(b.K) >= 0)
		}
	}
	if x.Op == "<<" || x.Op == ">>" {
		// shift: right operand is a count
		if a.K != nil || a.CK != nil {
			a = cx.typed(a, tInt)
		}
		it := intTOf(a.T)
		if it == nil {
			cx.fail("shift of non-integer in %s", x)
		}
		var cnt string
		var cntLit *big.Int
		tooBig := "false"
		if b.K != nil {
			cntLit = b.K
			cnt = ar.lit(IntT{it.Bits, false}, b.K)
		} else {
			ct := intTOf(b.T)
			tooBig = ar.cmp(">=", IntT{ct.Bits, false}, b.V.T, ar.lit(IntT{ct.Bits, false}, big.NewInt(int64(it.Bits))))
			cnt = b.V.T
			if !ar.intMode {
				cnt = ar.conv(IntT{ct.Bits, false}, IntT{it.Bits, false}, b.V.T)
			}
		}
		if x.Op == "<<" {
			return TV{V: sv(ar.shl(ex.q, *it, a.V.T, cnt, cntLit, tooBig)), T: a.T}
		}
		return TV{V: sv(ar.shr(ex.q, *it, a.V.T, cnt, cntLit, tooBig)), T: a.T}
	}
	a, b = cx.unify(a, b)
	if a.V == nil || b.V == nil {
		// both untyped non-integers
		a, b = cx.typed(a, tBool), cx.typed(b, tBool)
		if a.S != nil {
			cx.fail("string constant comparison unsupported in %s", x)
		}
	}
	l := ex.ls.of(a.T)
	switch x.Op {
	case "==", "!=":
		var c string
		switch l.Kind {
		case LString:
			if lit, ok := x.Y.(*CLit); ok && lit.Str != nil {
				c = ex.strEqLit(cx.state(), a.V, *lit.Str)
			} else if lit, ok := x.X.(*CLit); ok && lit.Str != nil {
				c = ex.strEqLit(cx.state(), b.V, *lit.Str)
			} else {
				c = ex.strEqSym(a.V, b.V)
			}
		case LIface:
			c = eq(a.V.C[0].T, b.V.C[0].T)
			if !(isNilExpr(x.X) || isNilExpr(x.Y)) {
				c = and(c, eq(a.V.C[1].T, b.V.C[1].T))
			}
		case LSlice:
			if isNilExpr(x.X) || isNilExpr(x.Y) {
				c = eq(a.V.C[0].T, b.V.C[0].T)
			} else {
				c = ex.eqVal(l, a.V, b.V) // same slice header (ghost equality)
			}
		default:
			if l.Sort == SF64 && isFloat64(a.T) {
				c = f64Bin("==", a.V.T, b.V.T)
			} else {
				c = ex.eqVal(l, a.V, b.V)
			}
		}
		if x.Op == "!=" {
			c = not(c)
		}
		return TV{V: sv(c), T: tBool}
	}
	if l.Sort == SBool {
		cx.fail("operator %s on booleans in %s", x.Op, x)
	}
	if l.Sort == SF64 && isFloat64(a.T) {
		t := f64Bin(x.Op, a.V.T, b.V.T)
		if t == "" {
			cx.fail("operator %s on float64 in %s", x.Op, x)
		}
		switch x.Op {
		case "<", "<=", ">", ">=":
			return TV{V: sv(t), T: tBool}
		}
		return TV{V: sv(t), T: a.T}
	}
	it := l.Int
	if it == nil {
		cx.fail("operator %s on %s in %s", x.Op, a.T, x)
	}
	lb := ex.ls.of(b.T)
	if lb.Int == nil || *lb.Int != *it {
		cx.fail("mismatched operand types %s and %s in %s", a.T, b.T, x)
	}
	var r string
	switch x.Op {
	case "+":
		r = ar.add(*it, a.V.T, b.V.T)
	case "-":
		r = ar.sub(*it, a.V.T, b.V.T)
	case "*":
		r = ar.mul(*it, a.V.T, b.V.T)
	case "/":
		r = ar.div(*it, a.V.T, b.V.T)
	case "%":
		r = ar.rem(*it, a.V.T, b.V.T)
	case "&", "|", "^", "&^":
		r = ar.bitop(ex.q, x.Op, *it, a.V.T, b.V.T)
	case "<", "<=", ">", ">=":
		return TV{V: sv(ar.cmp(x.Op, *it, a.V.T, b.V.T)), T: tBool}
	default:
		cx.fail("unknown operator %s", x.Op)
	}
	return TV{V: sv(r), T: a.T}
}

func isNilExpr(e CExpr) bool {
	id, ok := e.(*CIdent)
	return ok && id.Name == "nil"
}

func (cx *Ctx) quant(x *CQuant) TV {
	ex := cx.ex
	ar := ex.ar
	lo, hi := cx.evalInt(x.Lo), cx.evalInt(x.Hi)
	if cx.goal && x.Forall && !cx.inOld {
		// skolemise: prove the body for a fresh index
		k := ex.q.fresh("sk_"+x.Var, ar.idxSort())
		ex.q.assume(ar.inRange(idxT, k))
		sub := cx.child()
		sub.vals[x.Var] = sv(k)
		sub.types[x.Var] = tInt
		body := sub.evalBool(x.Body)
		return TV{V: sv(implies(and(ar.cmp("<=", idxT, lo, k), ar.cmp("<", idxT, k, hi)), body)), T: tBool}
	}
	cx.depth++
	v := fmt.Sprintf("q%d_%s", cx.depth, x.Var)
	sub := cx.child()
	sub.goal = false
	sub.facts = false
	sub.vals[x.Var] = sv(v)
	sub.types[x.Var] = tInt
	// definitions created while evaluating the body may mention the bound
	// variable, so the body is evaluated with inlining of definitions
	save := ex.q.inlineDefs
	ex.q.inlineDefs = true
	body := sub.evalBool(x.Body)
	ex.q.inlineDefs = save
	cx.depth--
	rng := and(ar.cmp("<=", idxT, lo, v), ar.cmp("<", idxT, v, hi))
	ex.usesQuant = true
	if x.Forall {
		return TV{V: sv(fmt.Sprintf("(forall ((%s %s)) (=> %s %s))", v, ar.idxSort(), rng, body)), T: tBool}
	}
	return TV{V: sv(fmt.Sprintf("(exists ((%s %s)) (and %s %s))", v, ar.idxSort(), rng, body)), T: tBool}
}

func (cx *Ctx) call(x *CCall) TV {
	ex := cx.ex
	_ = ex.ar
	switch x.Fun {
	case "len", "cap":
		v := cx.eval(x.Args[0])
		if v.S != nil {
			return TV{K: big.NewInt(int64(len(*v.S)))}
		}
		switch t := v.T.Underlying().(type) {
		case *types.Slice:
			if x.Fun == "len" {
				return TV{V: v.V.C[2], T: tInt}
			}
			return TV{V: v.V.C[3], T: tInt}
		case *types.Basic:
			return TV{V: v.V.C[2], T: tInt}
		case *types.Array:
			return TV{K: big.NewInt(t.Len())}
		case *types.Pointer:
			if at, ok := t.Elem().Underlying().(*types.Array); ok {
				return TV{K: big.NewInt(at.Len())}
			}
		}
		cx.fail("len of %s", v.T)
	case "old":
		if cx.old == nil && cx.oldVals == nil {
			cx.fail("old() used where no old state exists: %s", x)
		}
		sub := *cx
		sub.inOld = true
		sub.goal = false
		return sub.eval(x.Args[0])
	case "pre", "entry":
		st := cx.preSt
		if x.Fun == "entry" {
			st = cx.entrySt
		}
		if st == nil {
			cx.fail("%s() used where no such state exists: %s", x.Fun, x)
		}
		sub := *cx
		sub.inOld = true
		sub.old = st
		sub.oldVals = nil
		sub.goal = false
		return sub.eval(x.Args[0])
	case "fresh":
		v := cx.eval(x.Args[0])
		var base string
		switch ex.ls.of(v.T).Kind {
		case LSlice, LString:
			base = v.V.C[0].T
		case LScalar:
			base = v.V.T
		default:
			cx.fail("fresh of %s", v.T)
		}
		ctr := ex.ctr0
		if cx.old != nil {
			ctr = cx.old.ctr
		}
		return TV{V: sv("(>= (rid " + base + ") " + ctr + ")"), T: tBool}
	case "disjoint":
		// the two slices (or a slice and a pointer) live in different allocations
		if len(x.Args) != 2 {
			cx.fail("disjoint takes two arguments")
		}
		base := func(e CExpr) string {
			v := cx.eval(e)
			if v.V == nil {
				cx.fail("disjoint: %s has no address", e)
			}
			if v.V.C != nil {
				return v.V.C[0].T
			}
			return v.V.T
		}
		return TV{V: sv(not(eq("(root "+base(x.Args[0])+")", "(root "+base(x.Args[1])+")"))), T: tBool}
	case "sameSlice":
		a, b := cx.eval(x.Args[0]), cx.eval(x.Args[1])
		return TV{V: sv(ex.eqVal(ex.ls.of(a.T), a.V, b.V)), T: tBool}
	case "callarg":
		// callarg(f, i): the i-th argument (receiver first) of the latest call to f in this execution
		id, ok := ghostFnName(x.Args[0])
		if len(x.Args) != 2 || !ok {
			cx.fail("callarg takes a function name and an argument index")
		}
		iv := cx.eval(x.Args[1])
		if iv.K == nil {
			cx.fail("callarg: constant argument index expected")
		}
		i := int(iv.K.Int64())
		ls := ex.callArgLayout[id.Name]
		if i < 0 || i >= len(ls) {
			cx.fail("callarg(%s, %d): no such argument recorded in this function", id.Name, i)
		}
		st := cx.state()
		k := 0
		v := ex.ls.zip(ls[i], []*Val{ex.freshVal(ls[i], "nocall")}, func(srt Sort, ts []string) string {
			t := ts[0]
			if g, has := st.ghost[fmt.Sprintf("callarg:%s:%d:%d|%s", id.Name, i, k, srt)]; has {
				t = g
			}
			k++
			return t
		})
		return TV{V: v, T: ls[i].T}
	case "called", "callresult":
		// ghost call log of this execution: was f called / the result of its latest call
		id, ok := ghostFnName(x.Args[0])
		if len(x.Args) != 1 || !ok {
			cx.fail("%s takes a function name", x.Fun)
		}
		st := cx.state()
		if x.Fun == "called" {
			g := st.ghost["called:"+id.Name]
			if g == "" {
				g = "false"
			}
			return TV{V: sv(g), T: tBool}
		}
		rl := ex.callResLayout[id.Name]
		if rl == nil {
			cx.fail("callresult(%s): no call to %s with a used result in this function", id.Name, id.Name)
		}
		k := 0
		v := ex.ls.zip(rl, []*Val{ex.freshVal(rl, "nocall")}, func(srt Sort, ts []string) string {
			t := ts[0]
			if g, has := st.ghost[fmt.Sprintf("callres:%s:%d|%s", id.Name, k, srt)]; has {
				t = g
			}
			k++
			return t
		})
		return TV{V: v, T: rl.T}
	case "defined":
		d := cx.isDefined(x)
		return TV{B: &d}
	case "strings.HasPrefix":
		// literal prefixes only: exact pointwise expansion
		v := cx.eval(x.Args[0])
		lit, ok := x.Args[1].(*CLit)
		if !ok || lit.Str == nil || ex.ls.of(v.T).Kind != LString {
			panic(fmt.Errorf("contract: strings.HasPrefix needs a string and a literal prefix"))
		}
		pre := *lit.Str
		cs := []string{ex.ar.cmp(">=", idxT, v.V.C[2].T, ex.idx(int64(len(pre))))}
		for i := 0; i < len(pre); i++ {
			bt := ex.loadLeaf(cx.state(), ex.s8Key(), ex.elemAddr(v.V, ex.idx(int64(i))), false)
			cs = append(cs, eq(bt, ex.ar.litI(IntT{8, false}, int64(pre[i]))))
		}
		return TV{V: sv(and(cs...)), T: tBool}
	case "isnil":
		v := cx.eval(x.Args[0])
		switch ex.ls.of(v.T).Kind {
		case LSlice, LString:
			return TV{V: sv(eq(v.V.C[0].T, "nil")), T: tBool}
		case LIface:
			return TV{V: sv(eq(v.V.C[0].T, "0")), T: tBool}
		}
		return TV{V: sv(eq(v.V.T, "nil")), T: tBool}
	case "held":
		v := cx.eval(x.Args[0])
		g := cx.state().ghost["held:"+v.V.T]
		if g == "" {
			g = "false"
		}
		return TV{V: sv(g), T: tBool}
	}
	// basic type conversion written as a call: uint32(x)
	if len(x.Args) == 1 {
		if t := basicTypeByName(x.Fun); t != nil {
			return cx.convert(cx.eval(x.Args[0]), t)
		}
	}
	// pure spec function
	if pf := cx.findPure(x.Fun); pf != nil {
		if len(pf.Params) != len(x.Args) {
			cx.fail("pure %s: wrong number of arguments", x.Fun)
		}
		sub := cx.child()
		sub.spec = nil
		sub.lookup = nil
		sub.oldVals = nil
		if pf.Pkg != "" {
			if sp := ex.P.pkgByPath[pf.Pkg]; sp != nil {
				sub.pkg = sp.Pkg
			}
		}
		nv := map[string]*Val{}
		nt := map[string]types.Type{}
		for i, p := range pf.Params {
			t := sub.resolveType(pf.PTypes[i])
			a := cx.typed(cx.eval(x.Args[i]), t)
			if a.T != nil && !types.Identical(a.T.Underlying(), t.Underlying()) {
				a = cx.convert(a, t)
			}
			nv[p] = a.V
			nt[p] = t
		}
		sub.vals, sub.types = nv, nt
		r := sub.eval(pf.Body)
		if pf.RType != "" {
			r = sub.typed(r, sub.resolveType(pf.RType))
		}
		return r
	}
	// named type conversion T(x)
	if len(x.Args) == 1 {
		func() {
			defer func() { recover() }()
		}()
	}
	cx.fail("unknown function %s in contract", x.Fun)
	return TV{}
}

func basicTypeByName(n string) types.Type {
	switch n {
	case "byte":
		return types.Typ[types.Uint8]
	case "int", "int8", "int16", "int32", "int64", "uint", "uint8", "uint16", "uint32", "uint64", "uintptr", "bool", "float64":
		for _, b := range types.Typ {
			if b.Name() == n {
				return b
			}
		}
	}
	return nil
}

func (cx *Ctx) findPure(name string) *PureFn {
	if cx.pkg != nil {
		if pf, ok := cx.ex.P.specs.Pures[cx.pkg.Path()+"."+name]; ok {
			return pf
		}
	}
	if pf, ok := cx.ex.P.specs.Pures["."+name]; ok {
		return pf
	}
	// qualified: pkgname.fn
	if i := strings.Index(name, "."); i >= 0 {
		for k, pf := range cx.ex.P.specs.Pures {
			if strings.HasSuffix(k, "/"+name) {
				return pf
			}
		}
	}
	return nil
}

// ---------- frame-based contexts ----------

// frameLookup resolves an identifier to the SSA value it denotes at the
// current point of fr (parameters, DebugRef environment, header phis).
func (fr *Frame) frameLookup(name string, st *State, override map[string]*Val) (*Val, types.Type, bool) {
	if override != nil {
		if v, ok := override[name]; ok {
			// type from phi
			for _, b := range fr.fn.Blocks {
				for _, in := range b.Instrs {
					if phi, ok := in.(*ssa.Phi); ok && phi.Comment == name {
						return v, phi.Type(), true
					}
				}
			}
		}
	}
	if e, ok := fr.resolveName(name); ok {
		// a variable that lives in a memory cell (escaping local, captured variable): the reference found may
		// be an older load of the cell; the variable's value in `st` is the cell's content there
		if u, isLoad := e.v.(*ssa.UnOp); isLoad && !e.isAddr && u.Op == token.MUL {
			switch u.X.(type) {
			case *ssa.Alloc, *ssa.FreeVar:
				if _, has := fr.vals[u.X]; has {
					e = envEnt{u.X, true}
				}
			}
		}
		if e.isAddr {
			pt := e.v.Type().Underlying().(*types.Pointer)
			return fr.ex.load(st, fr.val(e.v).T, fr.ex.ls.of(pt.Elem()), fr.ex.P.addrHint(e.v), true), pt.Elem(), true
		}
		if _, has := fr.vals[e.v]; has || isConstLike(e.v) {
			return fr.val(e.v), e.v.Type(), true
		}
	}
	for _, p := range fr.fn.Params {
		if p.Name() == name {
			return fr.val(p), p.Type(), true
		}
	}
	for _, fv := range fr.fn.FreeVars {
		if fv.Name() == name {
			// captured variable: FreeVar holds its address
			pt, ok := fv.Type().Underlying().(*types.Pointer)
			if ok {
				return fr.ex.load(st, fr.val(fv).T, fr.ex.ls.of(pt.Elem()), "", true), pt.Elem(), true
			}
			return fr.val(fv), fv.Type(), true
		}
	}
	return nil, nil, false
}

// resolveName finds the SSA value a source variable denotes at the lookup
// point (fr.lookBlock, at its end or at its entry): the nearest DebugRef of a
// variable of that name, or phi labelled with it, scanning backwards through
// the block and then up the dominator tree. A phi in a nearer dominator
// always wins over an older DebugRef, so the value is never stale.
func (fr *Frame) resolveName(name string) (envEnt, bool) {
	b := fr.lookBlock
	if b == nil {
		return envEnt{}, false
	}
	first := true
	for ; b != nil; b = b.Idom() {
		instrs := b.Instrs
		if first && fr.lookIdx > 0 && fr.lookIdx <= len(instrs) {
			instrs = instrs[:fr.lookIdx]
		}
		for i := len(instrs) - 1; i >= 0; i-- {
			switch x := instrs[i].(type) {
			case *ssa.Phi:
				if x.Comment == name {
					if _, has := fr.vals[x]; has {
						return envEnt{x, false}, true
					}
				}
			case *ssa.DebugRef:
				if first && !fr.lookAtEnd {
					continue
				}
				if obj, ok := x.Object().(*types.Var); ok && obj.Name() == name {
					if _, has := fr.vals[x.X]; has || isConstLike(x.X) {
						return envEnt{x.X, x.IsAddr}, true
					}
					if _, isParam := x.X.(*ssa.Parameter); isParam {
						return envEnt{x.X, x.IsAddr}, true
					}
				}
			}
		}
		first = false
	}
	return envEnt{}, false
}

func isConstLike(v ssa.Value) bool {
	switch v.(type) {
	case *ssa.Const, *ssa.Global, *ssa.Function:
		return true
	}
	return false
}

func (fr *Frame) baseCtx(st *State) *Ctx {
	var pkg *types.Package
	if fr.fn.Pkg != nil {
		pkg = fr.fn.Pkg.Pkg
	} else if fr.fn.Parent() != nil && fr.fn.Parent().Pkg != nil {
		pkg = fr.fn.Parent().Pkg.Pkg
	}
	cx := &Ctx{fr: fr, ex: fr.ex, st: st, pkg: pkg, vals: map[string]*Val{}, types: map[string]types.Type{}, facts: true, spec: fr.spec}
	return cx
}

// loopCtx: context for loop clauses; next overrides header phis (values
// along a back edge), otherwise the current phi values are used.
func (fr *Frame) loopCtx(li *loopInfo, next map[string]*Val, st *State, goal bool) *Ctx {
	cx := fr.baseCtx(st)
	cx.goal = goal
	cx.old = fr.entrySt
	cx.entrySt = fr.entrySt
	cx.preSt = li.preSt
	cur := map[string]*Val{}
	if next == nil {
		for _, in := range li.header.Instrs {
			if phi, ok := in.(*ssa.Phi); ok {
				if v, has := fr.vals[phi]; has {
					cur[phi.Comment] = v
				}
			}
		}
	} else {
		cur = next
	}
	cx.lookup = func(name string) (*Val, types.Type, bool) { return fr.frameLookup(name, cx.state(), cur) }
	return cx
}

var _ = token.NoPos

// isDefined: defined(x) - does the identifier denote a value at this program
// point (statically: a local that is visible here, a parameter, a result)?
func (cx *Ctx) isDefined(c *CCall) (ok bool) {
	if len(c.Args) != 1 {
		cx.fail("defined takes one identifier")
	}
	id, isId := c.Args[0].(*CIdent)
	if !isId {
		cx.fail("defined takes one identifier")
	}
	defer func() {
		if r := recover(); r != nil {
			if e, isErr := r.(error); isErr && strings.Contains(e.Error(), "unknown identifier") {
				ok = false
				return
			}
			panic(r)
		}
	}()
	sub := *cx
	sub.goal = false
	sub.eval(id)
	return true
}

// ghostFnName: f, pkg.f or Type.f as written in called()/callresult()/callarg().
func ghostFnName(e CExpr) (*CIdent, bool) {
	switch x := e.(type) {
	case *CIdent:
		return x, true
	case *CSel:
		if id, ok := x.X.(*CIdent); ok {
			return &CIdent{id.Name + "." + x.Name}, true
		}
	}
	return nil, false
}
