package main

// Replay of a solver model against the real code (DESIGN §2.7): the model's
// values for the function's parameters (and the heap cells reachable from
// them) are turned into an in-package Go test that calls the real function
// under recover(); the test is injected with `go test -overlay` so /repo is
// never written.

import (
	"context"
	"encoding/json"
	"fmt"
	"go/types"
	"math/big"
	"os"
	"os/exec"
	"path/filepath"
	"regexp"
	"sort"
	"strings"
	"time"

	"golang.org/x/tools/go/ssa"
)

type ReplayResult struct {
	Confirmed bool              `json:"confirmed"`
	Note      string            `json:"note"`
	Inputs    map[string]string `json:"inputs,omitempty"`
	Test      string            `json:"generated_test,omitempty"`
	Output    string            `json:"test_output,omitempty"`
	Cmd       string            `json:"command,omitempty"`
}

const replayBytes = 96

type modelReq struct {
	exprs []string
}

func (m *modelReq) add(e string) int {
	m.exprs = append(m.exprs, e)
	return len(m.exprs) - 1
}

var panicKinds = map[string]bool{"index": true, "slice": true, "nil": true, "div": true, "assert": true, "panic": true, "make": true, "shift": true}

func tryReplay(P *Prog, ex *Exec, o *Obl, v *Verdict, tmp string, seed int) *ReplayResult {
	if ex == nil || v == nil || o.Cover {
		return nil
	}
	if v.Status == "unsat" {
		return nil
	}
	rr := &ReplayResult{}
	fn := ex.top
	if fn.Parent() != nil || fn.Pkg == nil {
		rr.Note = "no harness: closure or synthetic function"
		return rr
	}
	modelOnly := false
	clauseReplay := (o.Kind == "post" || o.Kind == "objinv") && o.Clause != nil && o.ClCx != nil && strings.HasPrefix(fn.Pkg.Pkg.Path(), lalPrefix)
	if !panicKinds[o.Kind] && !clauseReplay {
		rr.Note = "no harness: replay of this kind of contract clause (" + o.Kind + ") is not generated; the obligation itself is the evidence"
		modelOnly = true
	}
	// model query: quantified assumptions are dropped (over-approximation; the
	// model is only a candidate input)
	var b strings.Builder
	b.WriteString("(set-option :produce-models true)\n")
	b.WriteString(smtHeader(ex.ar.intMode, nil))
	for _, l := range ex.q.lines[:o.Pos] {
		if strings.Contains(l, "(forall ") || strings.Contains(l, "(exists ") {
			continue
		}
		b.WriteString(l + "\n")
	}
	b.WriteString("(assert " + o.Reach + ")\n(assert (not " + o.Cond + "))\n(check-sat)\n")
	req := &modelReq{}
	g := &genCtx{P: P, ex: ex, req: req, pkg: fn.Pkg.Pkg, declared: map[string]bool{}}
	for _, l := range ex.q.lines[:o.Pos] {
		if strings.HasPrefix(l, "(declare-const ") {
			g.declared[strings.Fields(l)[1]] = true
		}
	}
	var plans []*valPlan
	P.genMu.Lock()
	for _, in := range ex.inputs {
		plans = append(plans, g.plan(in.Type, in.Val, 0))
	}
	P.genMu.Unlock()
	getv := ""
	if len(req.exprs) > 0 {
		getv = "(get-value (" + strings.Join(req.exprs, "\n ") + "))\n"
	}
	file := filepath.Join(tmp, "model-"+sanitize(o.Name)+".smt2")
	if len(file) > 200 {
		file = file[:200] + ".smt2"
	}
	defer os.Remove(file)
	// prefer small inputs: first ask for a model in which every input length is at most 4096
	small, tiny := "", ""
	for _, t := range g.lenTerms {
		small += "(assert " + ex.ar.cmp("<=", idxT, t, ex.idx(4096)) + ")\n"
		tiny += "(assert " + ex.ar.cmp("<=", idxT, t, ex.idx(64)) + ")\n"
	}
	for _, it := range g.intTerms {
		// index-like scalars small as well, so that the bytes that matter are among those rebuilt
		tiny += "(assert " + ex.ar.cmp("<=", IntT{it.bits, false}, it.term, ex.ar.litI(IntT{it.bits, false}, 64)) + ")\n"
	}
	base := b.String()
	base = strings.TrimSuffix(base, "(check-sat)\n")
	var out string
	for _, extra := range []string{tiny, small, ""} {
		os.WriteFile(file, []byte(base+extra+"(check-sat)\n"+getv), 0o644)
		for _, sc := range []solverCfg{solvers[1], solvers[0]} {
			st, o2, _ := runSolver(context.Background(), sc, file, 8000, seed)
			if st == "sat" {
				out = o2
				break
			}
		}
		if out != "" {
			break
		}
	}
	if out == "" {
		rr.Note = "no model: the quantifier-free model query was not satisfiable within 10 s"
		return rr
	}
	vals := parseGetValue(out, len(req.exprs))
	if vals == nil {
		if os.Getenv("GOVC_DEBUG_MODEL") != "" {
			fmt.Fprintf(os.Stderr, "MODEL OUTPUT (%d exprs):\n%s\n", len(req.exprs), truncate(out, 3000))
		}
		rr.Note = "no model: could not parse solver values"
		return rr
	}
	g.vals = vals
	rr.Inputs = map[string]string{}
	var args []string
	ok := true
	for i, in := range ex.inputs {
		code, faithful := g.render(plans[i])
		if !faithful {
			ok = false
		}
		args = append(args, code)
		rr.Inputs[in.Name] = code
	}
	if g.tooBig {
		rr.Note = "model asks for an allocation above the replay limit; not run"
		return rr
	}
	if modelOnly {
		rr.Note += " (candidate input from the solver model attached)"
		return rr
	}
	if clauseReplay {
		return replayClause(P, ex, o, g, plans, rr, tmp)
	}
	// build the test
	var call string
	if fn.Signature.Recv() != nil {
		call = fmt.Sprintf("(%s).%s(%s)", args[0], fn.Name(), strings.Join(args[1:], ", "))
	} else {
		call = fmt.Sprintf("%s(%s)", fn.Name(), strings.Join(args, ", "))
	}
	imports := map[string]bool{"testing": true, "fmt": true, "os": true}
	for p := range g.imports {
		imports[p] = true
	}
	var ib strings.Builder
	for p := range imports {
		ib.WriteString(fmt.Sprintf("\t%q\n", p))
	}
	test := fmt.Sprintf(`package %s

import (
%s)

func TestVerifReplay(t *testing.T) {
	// the code under replay may create files relative to the working directory (HLS segments, recordings):
	// never inside the repository
	if d, err := os.MkdirTemp("", "govc-replay-cwd-"); err == nil {
		_ = os.Chdir(d)
		defer os.RemoveAll(d)
	}
	defer func() {
		if r := recover(); r != nil {
			fmt.Fprintf(os.Stdout, "VERIF-REPLAY-PANIC: %%v\n", r)
			return
		}
		fmt.Fprintln(os.Stdout, "VERIF-REPLAY-NOPANIC")
	}()
	%s
}
`, fn.Pkg.Pkg.Name(), ib.String(), call)
	rr.Test = test
	pkgPath := fn.Pkg.Pkg.Path()
	dir := ""
	for _, p := range P.pkgs {
		_ = p
	}
	// locate the package directory
	if pos := fn.Pos(); pos.IsValid() {
		dir = filepath.Dir(P.fset.Position(pos).Filename)
	}
	if dir == "" {
		rr.Note = "no harness: package directory unknown"
		return rr
	}
	testFile := filepath.Join(tmp, "replay_test.go")
	os.WriteFile(testFile, []byte(test), 0o644)
	ov := map[string]map[string]string{"Replace": {filepath.Join(dir, "zz_verif_replay_test.go"): testFile}}
	// contract files are overlaid as well so that the package builds as checked
	ovFile := filepath.Join(tmp, "overlay.json")
	ob, _ := json.Marshal(ov)
	os.WriteFile(ovFile, ob, 0o644)
	ctx, cancel := context.WithTimeout(context.Background(), 180*time.Second)
	defer cancel()
	cmd := exec.CommandContext(ctx, "bash", "-c", fmt.Sprintf("ulimit -v 8000000; cd %s && go test -v -overlay %s -vet=off -count=1 -timeout 60s -run '^TestVerifReplay$' %s", P.repo, ovFile, pkgPath))
	cmd.Env = append(os.Environ(), "GOFLAGS=-mod=mod", "GOPROXY=off", "GOSUMDB=off", "GOTOOLCHAIN=local")
	outb, _ := cmd.CombinedOutput()
	rr.Output = truncate(string(outb), 3000)
	rr.Cmd = "go test -overlay <overlay.json> -vet=off -count=1 -timeout 60s -run '^TestVerifReplay$' " + pkgPath
	switch {
	case strings.Contains(string(outb), "VERIF-REPLAY-PANIC") || strings.Contains(string(outb), "fatal error:") || strings.Contains(string(outb), "panic:"):
		rr.Confirmed = true
		rr.Note = "the real function panics on the model's input"
	case strings.Contains(string(outb), "VERIF-REPLAY-NOPANIC"):
		rr.Note = "the model's input does not panic on the real code"
		if !ok {
			rr.Note += " (the model could not be rebuilt faithfully: interface/func/map values or foreign unexported fields)"
		}
	default:
		rr.Note = "replay test did not build or run"
	}
	return rr
}

// ---------- model -> Go values ----------

type valPlan struct {
	t      types.Type
	scalar int // index into request, -1 if none
	kind   string
	fields []*valPlan
	names  []string
	lenIdx int
	bytes  []int
	elem   *valPlan
	nilIdx int
	note   string
}

type genCtx struct {
	P        *Prog
	ex       *Exec
	req      *modelReq
	vals     []string
	pkg      *types.Package
	imports  map[string]bool
	tooBig   bool
	declared map[string]bool
	lenTerms []string
	intTerms []intTerm
}

type intTerm struct {
	term string
	bits int
}

func (g *genCtx) initLoad(key, addr string) (string, bool) {
	hv, ok := g.ex.initHeaps["|"+key]
	if !ok || !g.declared[hv.term] {
		return "", false
	}
	return "(select " + hv.term + " " + addr + ")", true
}

func (g *genCtx) plan(t types.Type, v *Val, depth int) *valPlan {
	ex := g.ex
	l := ex.ls.of(t)
	p := &valPlan{t: t, scalar: -1, lenIdx: -1, nilIdx: -1}
	if depth > 3 {
		p.kind = "zero"
		return p
	}
	switch l.Kind {
	case LScalar:
		switch {
		case l.Int != nil:
			p.kind = "int"
			p.scalar = g.req.add(v.T)
			if l.Int.Bits >= 16 {
				g.intTerms = append(g.intTerms, intTerm{v.T, l.Int.Bits})
			}
		case l.Sort == SBool:
			p.kind = "bool"
			p.scalar = g.req.add(v.T)
		case l.Sort == SAddr:
			if pt, ok := t.Underlying().(*types.Pointer); ok {
				p.kind = "ptr"
				p.nilIdx = g.req.add("(ite (= " + v.T + " nil) 1 0)")
				el := ex.ls.of(pt.Elem())
				if el.Kind == LStruct {
					p.elem = g.planAt(pt.Elem(), v.T, "", depth+1)
				} else {
					p.kind = "zero"
				}
			} else {
				p.kind = "zero"
				p.note = "unfaithful"
			}
		default:
			p.kind = "zero"
		}
	case LSlice:
		p.kind = "slice"
		p.nilIdx = g.req.add("(ite (= " + v.C[0].T + " nil) 1 0)")
		p.lenIdx = g.req.add(v.C[2].T)
		g.lenTerms = append(g.lenTerms, v.C[2].T)
		el := ex.ls.of(t.Underlying().(*types.Slice).Elem())
		if el.Int != nil && el.Int.Bits == 8 {
			for i := 0; i < replayBytes; i++ {
				e, ok := g.initLoad(ex.pKey("bv8"), ex.elemAddr(v, ex.idx(int64(i))))
				if !ok {
					break
				}
				p.bytes = append(p.bytes, g.req.add(e))
			}
		} else {
			p.note = "unfaithful"
		}
	case LString:
		p.kind = "string"
		p.lenIdx = g.req.add(v.C[2].T)
		g.lenTerms = append(g.lenTerms, v.C[2].T)
		for i := 0; i < replayBytes; i++ {
			e, ok := g.initLoad(ex.s8Key(), ex.elemAddr(v, ex.idx(int64(i))))
			if !ok {
				break
			}
			p.bytes = append(p.bytes, g.req.add(e))
		}
	case LStruct:
		p.kind = "struct"
		st := t.Underlying().(*types.Struct)
		for i := 0; i < st.NumFields(); i++ {
			p.fields = append(p.fields, g.plan(st.Field(i).Type(), v.C[i], depth+1))
			p.names = append(p.names, st.Field(i).Name())
		}
	default:
		p.kind = "zero"
		if l.Kind == LIface {
			p.note = "unfaithful"
		}
	}
	return p
}

// planAt: value of type t stored at address addr in the initial heap.
func (g *genCtx) planAt(t types.Type, addr, hint string, depth int) *valPlan {
	ex := g.ex
	l := ex.ls.of(t)
	p := &valPlan{t: t, scalar: -1, lenIdx: -1, nilIdx: -1}
	if depth > 3 {
		p.kind = "zero"
		return p
	}
	leaf := func(comp int, class string, s Sort) (string, bool) {
		if hint != "" {
			return g.initLoad(fmt.Sprintf("%s#%d", hint, comp), addr)
		}
		if l.Kind == LScalar {
			return g.initLoad(ex.pKey(class), addr)
		}
		return g.initLoad(ex.pKey(class), compAddr(addr, comp))
	}
	switch l.Kind {
	case LScalar:
		e, ok := leaf(0, leafClass(l), l.Sort)
		if !ok {
			p.kind = "zero"
			return p
		}
		switch {
		case l.Int != nil:
			p.kind = "int"
			p.scalar = g.req.add(e)
			if l.Int.Bits >= 16 {
				g.intTerms = append(g.intTerms, intTerm{e, l.Int.Bits})
			}
		case l.Sort == SBool:
			p.kind = "bool"
			p.scalar = g.req.add(e)
		case l.Sort == SAddr:
			if pt, ok := t.Underlying().(*types.Pointer); ok && ex.ls.of(pt.Elem()).Kind == LStruct {
				p.kind = "ptr"
				p.nilIdx = g.req.add("(ite (= " + e + " nil) 1 0)")
				p.elem = g.planAt(pt.Elem(), e, "", depth+1)
			} else {
				p.kind = "zero"
				p.note = "unfaithful"
			}
		default:
			p.kind = "zero"
		}
	case LSlice:
		b, ok1 := leaf(0, "Addr", SAddr)
		off, ok2 := leaf(1, "bv64", ex.ar.idxSort())
		ln, ok3 := leaf(2, "bv64", ex.ar.idxSort())
		if !ok1 || !ok2 || !ok3 {
			p.kind = "zero"
			return p
		}
		p.kind = "slice"
		p.nilIdx = g.req.add("(ite (= " + b + " nil) 1 0)")
		p.lenIdx = g.req.add(ln)
		g.lenTerms = append(g.lenTerms, ln)
		el := ex.ls.of(t.Underlying().(*types.Slice).Elem())
		if el.Int != nil && el.Int.Bits == 8 {
			sv0 := &Val{C: []*Val{sv(b), sv(off), sv(ln), sv(ln)}}
			for i := 0; i < replayBytes; i++ {
				e, ok := g.initLoad(ex.pKey("bv8"), ex.elemAddr(sv0, ex.idx(int64(i))))
				if !ok {
					break
				}
				p.bytes = append(p.bytes, g.req.add(e))
			}
		} else {
			p.note = "unfaithful"
		}
	case LStruct:
		p.kind = "struct"
		st := t.Underlying().(*types.Struct)
		for i := 0; i < st.NumFields(); i++ {
			h := ""
			fl := l.Fields[i]
			if l.Named != nil && g.P.cleanField(l.Named, i) && fl.Kind != LStruct && fl.Kind != LArray {
				h = "H:" + fieldKey(l.Named, i)
			}
			p.fields = append(p.fields, g.planAt(st.Field(i).Type(), fmt.Sprintf("(fld %s %d)", addr, i), h, depth+1))
			p.names = append(p.names, st.Field(i).Name())
		}
	default:
		p.kind = "zero"
		if l.Kind == LIface {
			p.note = "unfaithful"
		}
	}
	return p
}

func (g *genCtx) typeName(t types.Type) string {
	return types.TypeString(t, func(p *types.Package) string {
		if p == g.pkg {
			return ""
		}
		if g.imports == nil {
			g.imports = map[string]bool{}
		}
		g.imports[p.Path()] = true
		return p.Name()
	})
}

func (g *genCtx) num(i int, t *IntT) *big.Int {
	if i < 0 || i >= len(g.vals) {
		return big.NewInt(0)
	}
	v := parseSMTNum(g.vals[i])
	if t != nil {
		v = wrapBig(*t, v)
	}
	return v
}

func (g *genCtx) render(p *valPlan) (code string, faithful bool) {
	faithful = p.note != "unfaithful"
	tn := g.typeName(p.t)
	switch p.kind {
	case "int":
		it := intTOf(p.t)
		return fmt.Sprintf("%s(%s)", tn, g.num(p.scalar, it).String()), true
	case "bool":
		if p.scalar >= 0 && strings.TrimSpace(g.vals[p.scalar]) == "true" {
			return "true", true
		}
		return "false", true
	case "slice":
		if g.num(p.nilIdx, nil).Sign() != 0 {
			return fmt.Sprintf("%s(nil)", tn), faithful
		}
		n := g.num(p.lenIdx, &idxT)
		if n.Cmp(big.NewInt(1<<26)) > 0 {
			g.tooBig = true
			return "nil", false
		}
		if p.bytes == nil {
			return fmt.Sprintf("make(%s, %s)", tn, n), faithful
		}
		var bs []string
		last := -1
		for i := range p.bytes {
			if int64(i) >= n.Int64() {
				break
			}
			b := g.num(p.bytes[i], &IntT{8, false})
			if b.Sign() != 0 {
				bs = append(bs, fmt.Sprintf("%d: %s", i, b))
				last = i
			}
		}
		_ = last
		return fmt.Sprintf("func() %s { b := make(%s, %s); for i, v := range map[int]byte{%s} { b[i] = v }; return b }()", tn, tn, n, strings.Join(bs, ", ")), faithful
	case "string":
		n := g.num(p.lenIdx, &idxT)
		if n.Cmp(big.NewInt(1<<26)) > 0 {
			g.tooBig = true
			return `""`, false
		}
		var bs []string
		for i := range p.bytes {
			if int64(i) >= n.Int64() {
				break
			}
			if b := g.num(p.bytes[i], &IntT{8, false}); b.Sign() != 0 {
				bs = append(bs, fmt.Sprintf("%d: %s", i, b))
			}
		}
		return fmt.Sprintf("func() %s { b := make([]byte, %s); for i, v := range map[int]byte{%s} { b[i] = v }; return %s(b) }()", tn, n, strings.Join(bs, ", "), tn), faithful
	case "ptr":
		if g.num(p.nilIdx, nil).Sign() != 0 {
			return fmt.Sprintf("(%s)(nil)", tn), faithful
		}
		c, f := g.render(p.elem)
		return "&" + c, faithful && f
	case "struct":
		var fs []string
		st := p.t.Underlying().(*types.Struct)
		for i, f := range p.fields {
			fld := st.Field(i)
			if !fld.Exported() && fld.Pkg() != g.pkg {
				faithful = false
				continue
			}
			if f.kind == "zero" {
				if f.note == "unfaithful" {
					faithful = false
				}
				continue
			}
			c, ff := g.render(f)
			if !ff {
				faithful = false
			}
			fs = append(fs, fmt.Sprintf("%s: %s", p.names[i], c))
		}
		return fmt.Sprintf("%s{%s}", tn, strings.Join(fs, ", ")), faithful
	}
	// zero value
	switch p.t.Underlying().(type) {
	case *types.Pointer, *types.Slice, *types.Map, *types.Chan, *types.Signature, *types.Interface:
		return fmt.Sprintf("(%s)(nil)", tn), faithful
	case *types.Basic:
		b := p.t.Underlying().(*types.Basic)
		switch {
		case b.Info()&types.IsString != 0:
			return `""`, faithful
		case b.Info()&types.IsNumeric != 0:
			return fmt.Sprintf("%s(0)", tn), faithful
		case b.Info()&types.IsBoolean != 0:
			return "false", faithful
		}
	}
	return fmt.Sprintf("*new(%s)", tn), faithful
}

var bvRe = regexp.MustCompile(`^\(_ bv([0-9]+) [0-9]+\)$`)

func parseSMTNum(s string) *big.Int {
	s = strings.TrimSpace(s)
	if m := bvRe.FindStringSubmatch(s); m != nil {
		v, _ := new(big.Int).SetString(m[1], 10)
		return v
	}
	if strings.HasPrefix(s, "#x") {
		v, _ := new(big.Int).SetString(s[2:], 16)
		return v
	}
	if strings.HasPrefix(s, "#b") {
		v, _ := new(big.Int).SetString(s[2:], 2)
		return v
	}
	if strings.HasPrefix(s, "(- ") {
		v, ok := new(big.Int).SetString(strings.TrimSuffix(s[3:], ")"), 10)
		if ok {
			return v.Neg(v)
		}
	}
	if v, ok := new(big.Int).SetString(s, 10); ok {
		return v
	}
	return big.NewInt(0)
}

// parseGetValue extracts the n values of a (get-value ...) response: a list
// of (expr value) pairs. Values are the last balanced s-expression of each
// pair.
func parseGetValue(out string, n int) []string {
	i := strings.Index(out, "\n")
	if i < 0 {
		return nil
	}
	s := strings.TrimSpace(out[i+1:])
	if n == 0 {
		return []string{}
	}
	if !strings.HasPrefix(s, "(") {
		return nil
	}
	// split top-level pairs
	var pairs []string
	depth := 0
	start := -1
	for k, c := range s {
		switch c {
		case '(':
			depth++
			if depth == 2 {
				start = k
			}
		case ')':
			depth--
			if depth == 1 && start >= 0 {
				pairs = append(pairs, s[start:k+1])
				start = -1
			}
		}
		if depth == 0 && k > 0 {
			break
		}
	}
	if len(pairs) != n {
		return nil
	}
	vals := make([]string, n)
	for k, p := range pairs {
		p = strings.TrimSpace(p[1 : len(p)-1])
		// value = last s-expression
		if strings.HasSuffix(p, ")") {
			d := 0
			j := len(p) - 1
			for ; j >= 0; j-- {
				if p[j] == ')' {
					d++
				} else if p[j] == '(' {
					d--
					if d == 0 {
						break
					}
				}
			}
			vals[k] = p[j:]
		} else {
			j := strings.LastIndexAny(p, " \n\t")
			vals[k] = p[j+1:]
		}
	}
	return vals
}

var _ = ssa.NaiveForm

// replayClause: run the real function on the model's input and evaluate the
// violated clause, translated to Go, on its actual results.
func replayClause(P *Prog, ex *Exec, o *Obl, g *genCtx, plans []*valPlan, rr *ReplayResult, tmp string) *ReplayResult {
	fn := ex.top
	imports := map[string]bool{"testing": true, "fmt": true, "os": true}
	params := map[string]bool{}
	resMap := map[string]string{}
	for _, p := range fn.Params {
		params[p.Name()] = true
	}
	res := fn.Signature.Results()
	var rnames []string
	for i := 0; i < res.Len(); i++ {
		rn := fmt.Sprintf("r%d", i)
		rnames = append(rnames, rn)
		resMap[fmt.Sprintf("result%d", i)] = rn
		if n := res.At(i).Name(); n != "" && n != "_" {
			resMap[n] = rn
			delete(params, n)
		}
	}
	if res.Len() == 1 {
		resMap["result"] = "r0"
	}
	if o.SelfIs != "" {
		resMap["self"] = "a_" + o.SelfIs
	}
	P.genMu.Lock()
	decls, expr, terr := clauseToGo(o.ClCx, fn.Pkg.Pkg, o.Clause, params, resMap, imports)
	P.genMu.Unlock()
	if terr != "" {
		rr.Note = "no harness: the clause cannot be evaluated in Go (" + terr + "); candidate input from the solver model attached"
		return rr
	}
	var b strings.Builder
	var args []string
	faithful := true
	for i, in := range ex.inputs {
		c1, f1 := g.render(plans[i])
		c2, _ := g.render(plans[i])
		faithful = faithful && f1
		b.WriteString(fmt.Sprintf("\ta_%s := %s\n\told_%s := %s\n\t_, _ = a_%s, old_%s\n", in.Name, c1, in.Name, c2, in.Name, in.Name))
		args = append(args, "a_"+in.Name)
	}
	if g.tooBig {
		rr.Note = "model asks for an allocation above the replay limit; not run"
		return rr
	}
	for p := range g.imports {
		imports[p] = true
	}
	var call string
	if fn.Signature.Recv() != nil {
		call = fmt.Sprintf("(%s).%s(%s)", args[0], fn.Name(), strings.Join(args[1:], ", "))
	} else {
		call = fmt.Sprintf("%s(%s)", fn.Name(), strings.Join(args, ", "))
	}
	if len(rnames) > 0 {
		call = strings.Join(rnames, ", ") + " := " + call + "\n\t_ = []interface{}{" + strings.Join(rnames, ", ") + "}"
	}
	var ib strings.Builder
	var ips []string
	for p := range imports {
		ips = append(ips, p)
	}
	sort.Strings(ips)
	for _, p := range ips {
		ib.WriteString(fmt.Sprintf("\t%q\n", p))
	}
	test := fmt.Sprintf(`package %s

import (
%s)

%s
func TestVerifReplay(t *testing.T) {
	if d, err := os.MkdirTemp("", "govc-replay-cwd-"); err == nil {
		_ = os.Chdir(d)
		defer os.RemoveAll(d)
	}
	defer func() {
		if r := recover(); r != nil {
			fmt.Fprintf(os.Stdout, "VERIF-REPLAY-PANIC: %%v\n", r)
		}
	}()
%s	%s
	if %s {
		fmt.Fprintln(os.Stdout, "VERIF-REPLAY-CLAUSE-HOLDS")
	} else {
		fmt.Fprintln(os.Stdout, "VERIF-REPLAY-CLAUSE-VIOLATED")
	}
}
`, fn.Pkg.Pkg.Name(), ib.String(), decls, b.String(), call, expr)
	rr.Test = test
	dir := ""
	if pos := fn.Pos(); pos.IsValid() {
		dir = filepath.Dir(P.fset.Position(pos).Filename)
	}
	if dir == "" {
		rr.Note = "no harness: package directory unknown"
		return rr
	}
	testFile := filepath.Join(tmp, "replay_clause_test.go")
	os.WriteFile(testFile, []byte(test), 0o644)
	ov := map[string]map[string]string{"Replace": {filepath.Join(dir, "zz_verif_replay_test.go"): testFile}}
	ovFile := filepath.Join(tmp, "overlay_clause.json")
	ob, _ := json.Marshal(ov)
	os.WriteFile(ovFile, ob, 0o644)
	ctx, cancel := context.WithTimeout(context.Background(), 180*time.Second)
	defer cancel()
	cmd := exec.CommandContext(ctx, "bash", "-c", fmt.Sprintf("ulimit -v 8000000; cd %s && go test -v -overlay %s -vet=off -count=1 -timeout 60s -run '^TestVerifReplay$' %s", P.repo, ovFile, fn.Pkg.Pkg.Path()))
	cmd.Env = append(os.Environ(), "GOFLAGS=-mod=mod", "GOPROXY=off", "GOSUMDB=off", "GOTOOLCHAIN=local")
	outb, _ := cmd.CombinedOutput()
	rr.Output = truncate(string(outb), 3000)
	rr.Cmd = "go test -v -overlay <overlay.json> -vet=off -count=1 -timeout 60s -run '^TestVerifReplay$' " + fn.Pkg.Pkg.Path()
	switch {
	case strings.Contains(string(outb), "VERIF-REPLAY-CLAUSE-VIOLATED"):
		rr.Confirmed = true
		rr.Note = "the real function's result violates the clause on the model's input"
	case strings.Contains(string(outb), "VERIF-REPLAY-PANIC"):
		rr.Confirmed = true
		rr.Note = "the real function panics on the model's input (while evaluating the call or the clause)"
	case strings.Contains(string(outb), "VERIF-REPLAY-CLAUSE-HOLDS"):
		rr.Note = "the clause holds on the real code for the model's input (the model does not reproduce)"
		if !faithful {
			rr.Note += "; the model could not be rebuilt faithfully (interface/func/map values or foreign unexported fields)"
		}
	default:
		rr.Note = "replay test did not build or run"
	}
	return rr
}
