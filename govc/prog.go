package main

import (
	"fmt"
	"go/ast"
	"go/token"
	"go/types"
	"os"
	"path/filepath"
	"sort"
	"strings"
	"sync"

	"golang.org/x/tools/go/packages"
	"golang.org/x/tools/go/ssa"
	"golang.org/x/tools/go/ssa/ssautil"
)

const lalPrefix = "github.com/q191201771/lal/"
const nazaPrefix = "github.com/q191201771/naza/"

type Prog struct {
	prog          *ssa.Program
	pkgs          []*packages.Package
	fset          *token.FileSet
	funcs         map[string]*ssa.Function // key: pkgpath.RelName
	keyOf         map[*ssa.Function]string
	specs         *Specs
	dirty         map[string]bool // "typeShort.field" whose address escapes
	mods          map[*ssa.Function]map[string]bool
	typeID        map[string]int
	typeBy        map[int]types.Type
	files         map[string]*ast.File // filename -> syntax
	src           map[string][]byte
	byPos         map[token.Pos]ast.Node // Lbrack / Lparen / etc. -> node
	inScope       []*ssa.Function
	addrTaken     map[string][]*ssa.Function // signature string -> functions used as values
	implCache     map[string][]*ssa.Function
	pkgByPath     map[string]*ssa.Package
	namedTypes    []*types.Named
	repo          string
	sweepInlined  []*ssa.Function
	reachCache    map[[2]*ssa.Function]bool
	reachMu       sync.Mutex
	genMu         sync.Mutex
	nonNilGlobals map[*ssa.Global]bool       // write-once package variables initialised with a non-nil value
	constGlobals  map[*ssa.Global]*ssa.Const // write-once package variables initialised with a constant
}

func inScopePkg(path string) bool {
	return strings.HasPrefix(path, lalPrefix) || strings.HasPrefix(path, nazaPrefix)
}

var inlineStd = map[string]bool{
	"encoding/binary": true,
}

func loadProg(repo, contractsDir string) (*Prog, error) {
	overlay := map[string][]byte{}
	sp := newSpecs()
	// contract files: /verif/contracts/<pkg>/zz_verif_contracts.go overlaid into /repo/pkg/<pkg>/
	ents, _ := os.ReadDir(contractsDir)
	for _, e := range ents {
		if !e.IsDir() {
			continue
		}
		dir := filepath.Join(contractsDir, e.Name())
		fs, _ := os.ReadDir(dir)
		for _, f := range fs {
			p := filepath.Join(dir, f.Name())
			data, err := os.ReadFile(p)
			if err != nil {
				return nil, err
			}
			switch {
			case strings.HasSuffix(f.Name(), ".go"):
				dst := filepath.Join(repo, "pkg", e.Name(), f.Name())
				overlay[dst] = data
				if err := sp.parseFile(p, data, lalPrefix+"pkg/"+e.Name()); err != nil {
					return nil, err
				}
			case strings.HasSuffix(f.Name(), ".spec"):
				if err := sp.parseFile(p, data, ""); err != nil {
					return nil, err
				}
			}
		}
	}
	cfg := &packages.Config{Mode: packages.LoadAllSyntax, Dir: repo, BuildFlags: []string{"-tags=verif"}, Overlay: overlay,
		Env: append(os.Environ(), "GOFLAGS=-mod=mod", "GOPROXY=off", "GOSUMDB=off", "GOTOOLCHAIN=local")}
	pkgs, err := packages.Load(cfg, "./pkg/...")
	if err != nil {
		return nil, err
	}
	nerr := 0
	packages.Visit(pkgs, nil, func(p *packages.Package) {
		for _, e := range p.Errors {
			if inScopePkg(p.PkgPath) {
				fmt.Fprintln(os.Stderr, "load error:", e)
				nerr++
			}
		}
	})
	if nerr > 0 {
		return nil, fmt.Errorf("%d load errors in /repo (does the tree compile with -tags verif?)", nerr)
	}
	prog, _ := ssautil.AllPackages(pkgs, ssa.GlobalDebug)
	prog.Build()
	P := &Prog{prog: prog, pkgs: pkgs, fset: prog.Fset, funcs: map[string]*ssa.Function{}, keyOf: map[*ssa.Function]string{},
		specs: sp, dirty: map[string]bool{}, mods: map[*ssa.Function]map[string]bool{}, typeID: map[string]int{}, typeBy: map[int]types.Type{},
		files: map[string]*ast.File{}, byPos: map[token.Pos]ast.Node{}, addrTaken: map[string][]*ssa.Function{},
		implCache: map[string][]*ssa.Function{}, pkgByPath: map[string]*ssa.Package{}, src: map[string][]byte{}, repo: repo, reachCache: map[[2]*ssa.Function]bool{}}
	all := ssautil.AllFunctions(prog)
	// methods nobody calls are not "reachable" for AllFunctions: add every
	// declared method of the analysed packages explicitly
	for _, sp := range prog.AllPackages() {
		if !inScopePkg(sp.Pkg.Path()) {
			continue
		}
		for _, mem := range sp.Members {
			tn, ok := mem.(*ssa.Type)
			if !ok {
				continue
			}
			for _, t := range []types.Type{tn.Type(), types.NewPointer(tn.Type())} {
				ms := prog.MethodSets.MethodSet(t)
				for i := 0; i < ms.Len(); i++ {
					if fn := prog.MethodValue(ms.At(i)); fn != nil {
						all[fn] = true
					}
				}
			}
		}
	}
	var fl []*ssa.Function
	for f := range all {
		if f.Pkg == nil && f.Parent() == nil && f.Synthetic == "" {
			continue
		}
		pk := f.Pkg
		if pk == nil && f.Parent() != nil {
			pk = f.Parent().Pkg
		}
		if pk == nil {
			continue
		}
		path := pk.Pkg.Path()
		if !inScopePkg(path) && !inlineStd[path] {
			continue
		}
		if path == "encoding/binary" && !binaryEndianFn(f) {
			continue
		}
		if f.Blocks == nil {
			continue
		}
		fl = append(fl, f)
	}
	sort.Slice(fl, func(i, j int) bool { return funcKey(fl[i]) < funcKey(fl[j]) })
	for _, f := range fl {
		k := funcKey(f)
		if _, dup := P.funcs[k]; dup {
			continue // instantiations / wrappers with identical names
		}
		P.funcs[k] = f
		P.keyOf[f] = k
		P.inScope = append(P.inScope, f)
	}
	for _, sp := range prog.AllPackages() {
		P.pkgByPath[sp.Pkg.Path()] = sp
	}
	packages.Visit(pkgs, nil, func(p *packages.Package) {
		if !inScopePkg(p.PkgPath) && !inlineStd[p.PkgPath] {
			return
		}
		for i, f := range p.Syntax {
			name := p.CompiledGoFiles[i]
			P.files[name] = f
			ast.Inspect(f, func(n ast.Node) bool {
				switch x := n.(type) {
				case *ast.IndexExpr:
					P.byPos[x.Lbrack] = x
				case *ast.SliceExpr:
					P.byPos[x.Lbrack] = x
				case *ast.CallExpr:
					P.byPos[x.Lparen] = x
				case *ast.BinaryExpr:
					P.byPos[x.OpPos] = x
				case *ast.TypeAssertExpr:
					P.byPos[x.Lparen] = x
				case *ast.StarExpr:
					P.byPos[x.Star] = x
				case *ast.SelectorExpr:
					P.byPos[x.Sel.Pos()] = x
				}
				return true
			})
		}
		if p.Types != nil {
			sc := p.Types.Scope()
			for _, n := range sc.Names() {
				if tn, ok := sc.Lookup(n).(*types.TypeName); ok {
					if nt, ok := tn.Type().(*types.Named); ok {
						P.namedTypes = append(P.namedTypes, nt)
					}
				}
			}
		}
	})
	P.analyzeDirty()
	P.collectAddrTaken()
	P.analyzeGlobals()
	return P, nil
}

// binaryEndianFn: the fixed-size big/little-endian accessors of
// encoding/binary, the only standard-library functions executed from source.
func binaryEndianFn(f *ssa.Function) bool {
	if f.Signature.Recv() == nil {
		return false
	}
	r := f.Signature.Recv().Type().String()
	if r != "encoding/binary.bigEndian" && r != "encoding/binary.littleEndian" {
		return false
	}
	switch f.Name() {
	case "Uint16", "Uint32", "Uint64", "PutUint16", "PutUint32", "PutUint64":
		return true
	}
	return false
}

func funcKey(f *ssa.Function) string {
	pk := f.Pkg
	if pk == nil && f.Parent() != nil {
		p := f.Parent()
		for p.Parent() != nil {
			p = p.Parent()
		}
		pk = p.Pkg
	}
	if pk == nil {
		return f.String()
	}
	return pk.Pkg.Path() + "." + f.RelString(pk.Pkg)
}

func (P *Prog) sourceText(from, to token.Pos) string {
	if !from.IsValid() || !to.IsValid() {
		return ""
	}
	pf := P.fset.Position(from)
	pt := P.fset.Position(to)
	data, ok := P.src[pf.Filename]
	if !ok {
		data, _ = os.ReadFile(pf.Filename)
		P.src[pf.Filename] = data
	}
	if pf.Offset < 0 || pt.Offset > len(data) || pf.Offset > pt.Offset {
		return ""
	}
	s := string(data[pf.Offset:pt.Offset])
	return strings.Join(strings.Fields(s), " ")
}

func (P *Prog) nodeText(n ast.Node) string {
	if n == nil {
		return ""
	}
	return P.sourceText(n.Pos(), n.End())
}

// ---------- heap naming ----------

func leafClass(l *Layout) string {
	switch {
	case l.Sort == SBool:
		return "Bool"
	case l.Int != nil:
		return fmt.Sprintf("bv%d", l.Int.Bits)
	case l.Sort == SAddr:
		return "Addr"
	case l.Sort == SF64:
		return "F64"
	case l.Sort == SInt:
		return "Int"
	}
	return "X"
}

func fieldKey(named *types.Named, idx int) string {
	st := named.Underlying().(*types.Struct)
	return typeShort(named) + "." + st.Field(idx).Name()
}

// ---------- dirty-field analysis ----------

func isLeafType(t types.Type) bool {
	switch t.Underlying().(type) {
	case *types.Struct, *types.Array:
		return false
	}
	return true
}

func structNamed(t types.Type) *types.Named {
	t = types.Unalias(t)
	if p, ok := t.Underlying().(*types.Pointer); ok {
		t = types.Unalias(p.Elem())
	}
	if n, ok := t.(*types.Named); ok {
		if _, ok := n.Underlying().(*types.Struct); ok {
			return n
		}
	}
	return nil
}

func (P *Prog) analyzeDirty() {
	for _, f := range P.inScope {
		for _, b := range f.Blocks {
			for _, in := range b.Instrs {
				switch x := in.(type) {
				case *ssa.FieldAddr:
					n := structNamed(x.X.Type())
					st := x.X.Type().Underlying().(*types.Pointer).Elem().Underlying().(*types.Struct)
					if !isLeafType(st.Field(x.Field).Type()) {
						continue
					}
					if n == nil {
						continue // unnamed struct: always P heaps
					}
					for _, r := range *x.Referrers() {
						ok := false
						switch u := r.(type) {
						case *ssa.UnOp:
							ok = u.Op == token.MUL && u.X == x
						case *ssa.Store:
							ok = u.Addr == x && u.Val != x
						case *ssa.DebugRef:
							ok = true
						}
						if !ok {
							P.dirty[fieldKey(n, x.Field)] = true
						}
					}
				case *ssa.ChangeType:
					a, b := structNamed(x.X.Type()), structNamed(x.Type())
					if a != nil && b != nil && a != b {
						for _, n := range []*types.Named{a, b} {
							st := n.Underlying().(*types.Struct)
							for i := 0; i < st.NumFields(); i++ {
								P.dirty[fieldKey(n, i)] = true
							}
						}
					}
				case *ssa.Convert:
					// unsafe.Pointer conversions of struct pointers: mark dirty
					if a := structNamed(x.X.Type()); a != nil {
						st := a.Underlying().(*types.Struct)
						for i := 0; i < st.NumFields(); i++ {
							P.dirty[fieldKey(a, i)] = true
						}
					}
				}
			}
		}
	}
}

func (P *Prog) collectAddrTaken() {
	seen := map[*ssa.Function]bool{}
	for _, f := range P.inScope {
		for _, b := range f.Blocks {
			for _, in := range b.Instrs {
				var ops []*ssa.Value
				ops = in.Operands(ops)
				for i, op := range ops {
					if op == nil || *op == nil {
						continue
					}
					var fn *ssa.Function
					switch v := (*op).(type) {
					case *ssa.Function:
						fn = v
					case *ssa.MakeClosure:
						fn, _ = v.Fn.(*ssa.Function)
					}
					if fn == nil {
						continue
					}
					if c, ok := in.(ssa.CallInstruction); ok && i == 0 && c.Common().Value == *op {
						if _, isMC := (*op).(*ssa.MakeClosure); !isMC {
							continue // direct call
						}
					}
					if !seen[fn] {
						seen[fn] = true
						k := sigKey(fn.Signature)
						P.addrTaken[k] = append(P.addrTaken[k], fn)
					}
				}
			}
		}
	}
}

func sigKey(s *types.Signature) string {
	return types.TypeString(types.NewSignatureType(nil, nil, nil, s.Params(), s.Results(), s.Variadic()), nil)
}

// implementors returns in-scope concrete methods that may be the target of
// an interface method call (class hierarchy analysis).
func (P *Prog) implementors(iface *types.Interface, m *types.Func) []*ssa.Function {
	key := types.TypeString(iface, nil) + "#" + m.Name()
	if r, ok := P.implCache[key]; ok {
		return r
	}
	var out []*ssa.Function
	for _, nt := range P.namedTypes {
		if types.IsInterface(nt) {
			continue
		}
		for _, t := range []types.Type{nt, types.NewPointer(nt)} {
			if !types.Implements(t, iface) {
				continue
			}
			sel := P.prog.MethodSets.MethodSet(t).Lookup(m.Pkg(), m.Name())
			if sel == nil {
				continue
			}
			if fn := P.prog.MethodValue(sel); fn != nil {
				out = append(out, fn)
			}
		}
	}
	P.implCache[key] = out
	return out
}

func (P *Prog) getTypeID(t types.Type) int {
	k := types.TypeString(t, nil)
	if id, ok := P.typeID[k]; ok {
		return id
	}
	id := len(P.typeID) + 1
	P.typeID[k] = id
	P.typeBy[id] = t
	return id
}

// analyzeGlobals: package-level variables that are stored to only by their
// package initialiser, with a value that cannot be nil (errors.New,
// fmt.Errorf, a composite literal, make, a function). Loads of such a
// variable are non-nil (DESIGN §2.2 "global ... write-once check").
func (P *Prog) analyzeGlobals() {
	P.nonNilGlobals = map[*ssa.Global]bool{}
	P.constGlobals = map[*ssa.Global]*ssa.Const{}
	bad := map[*ssa.Global]bool{}
	for _, f := range P.inScope {
		isInit := f.Name() == "init" && f.Signature.Recv() == nil && f.Parent() == nil
		for _, b := range f.Blocks {
			for _, in := range b.Instrs {
				st, ok := in.(*ssa.Store)
				if ok {
					if g, isG := st.Addr.(*ssa.Global); isG {
						okv := false
						if isInit {
							switch v := st.Val.(type) {
							case *ssa.Call:
								if c := v.Call.StaticCallee(); c != nil {
									switch c.String() {
									case "errors.New", "fmt.Errorf":
										okv = true
									}
								}
							case *ssa.MakeInterface, *ssa.Alloc, *ssa.MakeMap, *ssa.MakeChan, *ssa.MakeClosure, *ssa.Function, *ssa.MakeSlice:
								okv = true
							case *ssa.Const:
								if !bad[g] && v.Value != nil {
									if _, dup := P.constGlobals[g]; dup {
										bad[g] = true
									} else {
										P.constGlobals[g] = v
										continue
									}
								}
							}
						}
						if okv && !bad[g] {
							P.nonNilGlobals[g] = true
						} else {
							bad[g] = true
							delete(P.nonNilGlobals, g)
							delete(P.constGlobals, g)
						}
						continue
					}
				}
				// any other use of the global's address than a load disqualifies it
				var ops []*ssa.Value
				for _, op := range in.Operands(ops) {
					if g, isG := (*op).(*ssa.Global); isG {
						if u, isLoad := in.(*ssa.UnOp); isLoad && u.Op == token.MUL {
							continue
						}
						if _, isDbg := in.(*ssa.DebugRef); isDbg {
							continue
						}
						bad[g] = true
						delete(P.nonNilGlobals, g)
						delete(P.constGlobals, g)
					}
				}
			}
		}
	}
}
