package main

import (
	"fmt"
	"math"
	"math/big"
	"strings"
)

// ---------- sorts ----------

type Sort string

const (
	SBool Sort = "Bool"
	SInt  Sort = "Int"
	SAddr Sort = "Addr"
	SF64  Sort = "F64"
)

func bvSort(n int) Sort { return Sort(fmt.Sprintf("(_ BitVec %d)", n)) }

// IntT describes a Go integer type.
type IntT struct {
	Bits   int
	Signed bool
}

// ---------- prelude / query builder ----------

// Q accumulates the definitional prelude of one function. It is monotone:
// an obligation recorded at position p may use lines[:p] only.
type Q struct {
	lines      []string
	n          int
	intMode    bool
	consts     map[string]Sort // declared symbolic constants (for model extraction)
	order      []string
	usesUF     bool
	inlineDefs bool // inside a quantifier body: definitions may mention bound variables, so do not name them
}

func newQ(intMode bool) *Q { return &Q{intMode: intMode, consts: map[string]Sort{}} }

func (q *Q) pos() int { return len(q.lines) }

func (q *Q) fresh(prefix string, s Sort) string {
	q.n++
	name := fmt.Sprintf("%s!%d", sanitize(prefix), q.n)
	q.lines = append(q.lines, fmt.Sprintf("(declare-const %s %s)", name, s))
	q.consts[name] = s
	q.order = append(q.order, name)
	return name
}

func isAtom(e string) bool {
	return !strings.ContainsAny(e, " (") || strings.HasPrefix(e, "(_ bv") || (strings.HasPrefix(e, "#") && !strings.Contains(e, " "))
}

func (q *Q) def(prefix string, s Sort, expr string) string {
	if isAtom(expr) || q.inlineDefs {
		return expr
	}
	q.n++
	name := fmt.Sprintf("%s!%d", sanitize(prefix), q.n)
	q.lines = append(q.lines, fmt.Sprintf("(define-fun %s () %s %s)", name, s, expr))
	return name
}

func (q *Q) assume(expr string) {
	if expr == "true" {
		return
	}
	q.lines = append(q.lines, "(assert "+expr+")")
}

func (q *Q) comment(s string) {
	q.lines = append(q.lines, "; "+strings.ReplaceAll(s, "\n", " "))
}

func sanitize(s string) string {
	var b strings.Builder
	for _, r := range s {
		if r >= 'a' && r <= 'z' || r >= 'A' && r <= 'Z' || r >= '0' && r <= '9' || r == '_' || r == '.' {
			b.WriteRune(r)
		} else {
			b.WriteByte('_')
		}
	}
	if b.Len() == 0 {
		return "v"
	}
	return b.String()
}

// ---------- boolean helpers ----------

func and(xs ...string) string {
	var ys []string
	for _, x := range xs {
		if x == "true" || x == "" {
			continue
		}
		if x == "false" {
			return "false"
		}
		ys = append(ys, x)
	}
	switch len(ys) {
	case 0:
		return "true"
	case 1:
		return ys[0]
	}
	return "(and " + strings.Join(ys, " ") + ")"
}

func or(xs ...string) string {
	var ys []string
	for _, x := range xs {
		if x == "false" || x == "" {
			continue
		}
		if x == "true" {
			return "true"
		}
		ys = append(ys, x)
	}
	switch len(ys) {
	case 0:
		return "false"
	case 1:
		return ys[0]
	}
	return "(or " + strings.Join(ys, " ") + ")"
}

func not(x string) string {
	switch x {
	case "true":
		return "false"
	case "false":
		return "true"
	}
	if strings.HasPrefix(x, "(not ") && balanced(x[5:len(x)-1]) {
		return x[5 : len(x)-1]
	}
	return "(not " + x + ")"
}

func balanced(s string) bool {
	d := 0
	for _, c := range s {
		if c == '(' {
			d++
		} else if c == ')' {
			d--
			if d < 0 {
				return false
			}
		}
	}
	return d == 0
}

func implies(a, b string) string {
	if a == "true" {
		return b
	}
	if b == "true" || a == "false" {
		return "true"
	}
	return "(=> " + a + " " + b + ")"
}

func ite(c, a, b string) string {
	if c == "true" || a == b {
		return a
	}
	if c == "false" {
		return b
	}
	return "(ite " + c + " " + a + " " + b + ")"
}

func eq(a, b string) string {
	if a == b {
		return "true"
	}
	return "(= " + a + " " + b + ")"
}

// ---------- integer arithmetic in the two encodings ----------

type Arith struct{ intMode bool }

func (a Arith) sort(t IntT) Sort {
	if a.intMode {
		return SInt
	}
	return bvSort(t.Bits)
}

func (a Arith) idxSort() Sort { return a.sort(IntT{64, true}) }

var big1 = big.NewInt(1)

func pow2(n int) *big.Int { return new(big.Int).Lsh(big1, uint(n)) }

func intLit(v *big.Int) string {
	if v.Sign() < 0 {
		return "(- " + new(big.Int).Neg(v).String() + ")"
	}
	return v.String()
}

// wrapBig reduces v into the range of t.
func wrapBig(t IntT, v *big.Int) *big.Int {
	m := pow2(t.Bits)
	r := new(big.Int).Mod(v, m)
	if t.Signed && r.Cmp(pow2(t.Bits-1)) >= 0 {
		r.Sub(r, m)
	}
	return r
}

func (a Arith) lit(t IntT, v *big.Int) string {
	w := wrapBig(t, v)
	if a.intMode {
		return intLit(w)
	}
	u := new(big.Int).Mod(w, pow2(t.Bits))
	return fmt.Sprintf("(_ bv%s %d)", u.String(), t.Bits)
}

func (a Arith) litI(t IntT, v int64) string { return a.lit(t, big.NewInt(v)) }

// parseLit recognises literals produced by lit (for constant folding).
func (a Arith) parseLit(t IntT, s string) (*big.Int, bool) {
	if a.intMode {
		if strings.HasPrefix(s, "(- ") && strings.HasSuffix(s, ")") {
			v, ok := new(big.Int).SetString(s[3:len(s)-1], 10)
			if ok {
				return v.Neg(v), true
			}
			return nil, false
		}
		v, ok := new(big.Int).SetString(s, 10)
		return v, ok
	}
	if strings.HasPrefix(s, "(_ bv") {
		f := strings.Fields(s[5 : len(s)-1])
		if len(f) == 2 {
			v, ok := new(big.Int).SetString(f[0], 10)
			if ok {
				return wrapBig(t, v), true
			}
		}
	}
	return nil, false
}

// wrap (int mode): reduce an exact integer term into the range of t.
func (a Arith) wrap(t IntT, x string) string {
	m := pow2(t.Bits).String()
	// the common case (no overflow) is kept free of mod so that the nonlinear
	// core sees plain arithmetic
	if !t.Signed {
		return "(let ((wx " + x + ")) (ite (and (<= 0 wx) (< wx " + m + ")) wx (mod wx " + m + ")))"
	}
	h := pow2(t.Bits - 1).String()
	return "(let ((wx " + x + ")) (ite (and (<= (- " + h + ") wx) (< wx " + h + ")) wx (- (mod (+ wx " + h + ") " + m + ") " + h + ")))"
}

func (a Arith) inRange(t IntT, x string) string {
	if !a.intMode {
		return "true"
	}
	if t.Signed {
		return "(and (<= " + intLit(new(big.Int).Neg(pow2(t.Bits-1))) + " " + x + ") (< " + x + " " + pow2(t.Bits-1).String() + "))"
	}
	return "(and (<= 0 " + x + ") (< " + x + " " + pow2(t.Bits).String() + "))"
}

func (a Arith) add(t IntT, x, y string) string {
	if vx, ok := a.parseLit(t, x); ok {
		if vy, ok := a.parseLit(t, y); ok {
			return a.lit(t, new(big.Int).Add(vx, vy))
		}
	}
	if a.intMode {
		return a.wrap(t, "(+ "+x+" "+y+")")
	}
	return "(bvadd " + x + " " + y + ")"
}
func (a Arith) sub(t IntT, x, y string) string {
	if vx, ok := a.parseLit(t, x); ok {
		if vy, ok := a.parseLit(t, y); ok {
			return a.lit(t, new(big.Int).Sub(vx, vy))
		}
	}
	if a.intMode {
		return a.wrap(t, "(- "+x+" "+y+")")
	}
	return "(bvsub " + x + " " + y + ")"
}
func (a Arith) mul(t IntT, x, y string) string {
	if vx, ok := a.parseLit(t, x); ok {
		if vy, ok := a.parseLit(t, y); ok {
			return a.lit(t, new(big.Int).Mul(vx, vy))
		}
	}
	if a.intMode {
		return a.wrap(t, "(* "+x+" "+y+")")
	}
	return "(bvmul " + x + " " + y + ")"
}
func (a Arith) neg(t IntT, x string) string {
	if a.intMode {
		return a.wrap(t, "(- "+x+")")
	}
	return "(bvneg " + x + ")"
}

// div/rem: Go semantics (truncate toward zero); division by zero is an
// obligation raised by the caller.
func (a Arith) div(t IntT, x, y string) string {
	if a.intMode {
		if !t.Signed {
			return "(div " + x + " " + y + ")"
		}
		// truncated division from SMT floor/euclidean division
		q := "(ite (>= " + x + " 0) (div " + x + " " + y + ") (- (div (- " + x + ") " + y + ")))"
		return a.wrap(t, q)
	}
	if t.Signed {
		return "(bvsdiv " + x + " " + y + ")"
	}
	return "(bvudiv " + x + " " + y + ")"
}
func (a Arith) rem(t IntT, x, y string) string {
	if a.intMode {
		if !t.Signed {
			return "(mod " + x + " " + y + ")"
		}
		// sign follows dividend: x - y*trunc(x/y)
		return "(ite (>= " + x + " 0) (mod " + x + " " + y + ") (- (mod (- " + x + ") " + y + ")))"
	}
	if t.Signed {
		return "(bvsrem " + x + " " + y + ")"
	}
	return "(bvurem " + x + " " + y + ")"
}

func (a Arith) cmp(op string, t IntT, x, y string) string {
	if vx, ok := a.parseLit(t, x); ok {
		if vy, ok := a.parseLit(t, y); ok {
			c := vx.Cmp(vy)
			var r bool
			switch op {
			case "<":
				r = c < 0
			case "<=":
				r = c <= 0
			case ">":
				r = c > 0
			case ">=":
				r = c >= 0
			}
			if r {
				return "true"
			}
			return "false"
		}
	}
	if a.intMode {
		return "(" + op + " " + x + " " + y + ")"
	}
	var f string
	switch op {
	case "<":
		f = "lt"
	case "<=":
		f = "le"
	case ">":
		f = "gt"
	case ">=":
		f = "ge"
	}
	if t.Signed {
		return "(bvs" + f + " " + x + " " + y + ")"
	}
	return "(bvu" + f + " " + x + " " + y + ")"
}

// uf declares (once) an uninterpreted function used by int mode for bit
// operators on two symbolic operands.
type ufSet struct {
	decls []string
	seen  map[string]bool
}

func (a Arith) bitop(q *Q, op string, t IntT, x, y string) string {
	if !a.intMode {
		switch op {
		case "&":
			return "(bvand " + x + " " + y + ")"
		case "|":
			return "(bvor " + x + " " + y + ")"
		case "^":
			return "(bvxor " + x + " " + y + ")"
		case "&^":
			return "(bvand " + x + " (bvnot " + y + "))"
		}
	}
	vx, okx := a.parseLit(t, x)
	vy, oky := a.parseLit(t, y)
	if okx && oky {
		ux, uy := new(big.Int).Mod(vx, pow2(t.Bits)), new(big.Int).Mod(vy, pow2(t.Bits))
		var r *big.Int
		switch op {
		case "&":
			r = new(big.Int).And(ux, uy)
		case "|":
			r = new(big.Int).Or(ux, uy)
		case "^":
			r = new(big.Int).Xor(ux, uy)
		case "&^":
			r = new(big.Int).AndNot(ux, uy)
		}
		return a.lit(t, r)
	}
	// one constant operand: exact integer arithmetic.
	//   x & c  = sum over maximal runs [lo,hi) of set bits of c: ((x div 2^lo) mod 2^(hi-lo)) * 2^lo
	//   x | c  = x + c - (x & c);  x ^ c = x + c - 2(x & c);  x &^ c = x - (x & c)
	if okx || oky {
		c, o := vy, x
		if okx && !oky {
			c, o = vx, y
			if op == "&^" {
				// c &^ y  = c - (c & y)
				c, o = vx, y
			}
		}
		uc := new(big.Int).Mod(c, pow2(t.Bits))
		uo := o
		if t.Signed {
			uo = "(mod " + o + " " + pow2(t.Bits).String() + ")"
		}
		andc := func() string {
			var terms []string
			i := 0
			for i < t.Bits {
				if uc.Bit(i) == 0 {
					i++
					continue
				}
				lo := i
				for i < t.Bits && uc.Bit(i) == 1 {
					i++
				}
				w := i - lo
				tm := uo
				if lo > 0 {
					tm = "(div " + tm + " " + pow2(lo).String() + ")"
				}
				if i < t.Bits {
					tm = "(mod " + tm + " " + pow2(w).String() + ")"
				}
				if lo > 0 {
					tm = "(* " + tm + " " + pow2(lo).String() + ")"
				}
				terms = append(terms, tm)
			}
			switch len(terms) {
			case 0:
				return "0"
			case 1:
				return terms[0]
			}
			return "(+ " + strings.Join(terms, " ") + ")"
		}()
		var r string
		switch op {
		case "&":
			r = andc
		case "|":
			r = "(- (+ " + uo + " " + uc.String() + ") " + andc + ")"
		case "^":
			r = "(- (+ " + uo + " " + uc.String() + ") (* 2 " + andc + "))"
		case "&^":
			if okx && !oky {
				r = "(- " + uc.String() + " " + andc + ")"
			} else {
				r = "(- " + uo + " " + andc + ")"
			}
		}
		if t.Signed {
			return a.wrap(t, r)
		}
		return r
	}
	// both symbolic, narrow type: exact bit-sum expansion
	if t.Bits <= 16 && !t.Signed {
		var terms []string
		for i := 0; i < t.Bits; i++ {
			bx := "(mod (div " + x + " " + pow2(i).String() + ") 2)"
			by := "(mod (div " + y + " " + pow2(i).String() + ") 2)"
			var cnd string
			switch op {
			case "&":
				cnd = "(and (= " + bx + " 1) (= " + by + " 1))"
			case "|":
				cnd = "(or (= " + bx + " 1) (= " + by + " 1))"
			case "^":
				cnd = "(not (= " + bx + " " + by + "))"
			case "&^":
				cnd = "(and (= " + bx + " 1) (= " + by + " 0))"
			}
			terms = append(terms, "(ite "+cnd+" "+pow2(i).String()+" 0)")
		}
		return "(+ " + strings.Join(terms, " ") + ")"
	}
	// fall back: uninterpreted with range axiom (sat answers not trusted)
	name := map[string]string{"&": "uf_and", "|": "uf_or", "^": "uf_xor", "&^": "uf_andnot"}[op] + fmt.Sprint(t.Bits)
	if t.Signed {
		name += "s"
	}
	q.needUF(name, t)
	return "(" + name + " " + x + " " + y + ")"
}

func (q *Q) needUF(name string, t IntT) {
	key := "(declare-fun " + name + " (Int Int) Int)"
	for _, l := range q.lines {
		if l == key {
			return
		}
	}
	q.lines = append(q.lines, key)
	a := Arith{true}
	q.lines = append(q.lines, "(assert (forall ((x Int) (y Int)) (! "+a.inRange(t, "("+name+" x y)")+" :pattern (("+name+" x y)))))")
	if !t.Signed && strings.HasPrefix(name, "uf_and") && !strings.HasPrefix(name, "uf_andnot") {
		q.lines = append(q.lines, "(assert (forall ((x Int) (y Int)) (! (=> (and (>= x 0) (>= y 0)) (and (<= ("+name+" x y) x) (<= ("+name+" x y) y))) :pattern (("+name+" x y)))))")
	}
	if !t.Signed && strings.HasPrefix(name, "uf_or") {
		q.lines = append(q.lines, "(assert (forall ((x Int) (y Int)) (! (=> (and (>= x 0) (>= y 0)) (and (>= ("+name+" x y) x) (>= ("+name+" x y) y) (<= ("+name+" x y) (+ x y)))) :pattern (("+name+" x y)))))")
	}
	q.usesUF = true
}

func (a Arith) bvnot(t IntT, x string) string {
	if a.intMode {
		if t.Signed {
			return "(- (- " + x + ") 1)"
		}
		return "(- " + new(big.Int).Sub(pow2(t.Bits), big1).String() + " " + x + ")"
	}
	return "(bvnot " + x + ")"
}

// shift: count already converted to the operand's width/sort, with
// "tooBig" = count >= width (computed in the count's own type by the caller).
func (a Arith) shl(q *Q, t IntT, x, cnt string, cntLit *big.Int, tooBig string) string {
	if a.intMode {
		if cntLit != nil {
			if cntLit.Cmp(big.NewInt(int64(t.Bits))) >= 0 {
				return "0"
			}
			return a.wrap(t, "(* "+x+" "+pow2(int(cntLit.Int64())).String()+")")
		}
		q.needPow2()
		return ite(tooBig, "0", a.wrap(t, "(* "+x+" (pow2 "+cnt+"))"))
	}
	if cntLit != nil && cntLit.Cmp(big.NewInt(int64(t.Bits))) >= 0 {
		return a.litI(t, 0)
	}
	return ite(tooBig, a.litI(t, 0), "(bvshl "+x+" "+cnt+")")
}

func (a Arith) shr(q *Q, t IntT, x, cnt string, cntLit *big.Int, tooBig string) string {
	if a.intMode {
		fill := "0"
		if t.Signed {
			fill = "(ite (< " + x + " 0) (- 1) 0)"
		}
		if cntLit != nil {
			if cntLit.Cmp(big.NewInt(int64(t.Bits))) >= 0 {
				return fill
			}
			return "(div " + x + " " + pow2(int(cntLit.Int64())).String() + ")" // floor division == arithmetic shift
		}
		q.needPow2()
		return ite(tooBig, fill, "(div "+x+" (pow2 "+cnt+"))")
	}
	if t.Signed {
		if cntLit != nil && cntLit.Cmp(big.NewInt(int64(t.Bits))) >= 0 {
			return "(bvashr " + x + " " + a.litI(t, int64(t.Bits-1)) + ")"
		}
		return ite(tooBig, "(bvashr "+x+" "+a.litI(t, int64(t.Bits-1))+")", "(bvashr "+x+" "+cnt+")")
	}
	if cntLit != nil && cntLit.Cmp(big.NewInt(int64(t.Bits))) >= 0 {
		return a.litI(t, 0)
	}
	return ite(tooBig, a.litI(t, 0), "(bvlshr "+x+" "+cnt+")")
}

func (q *Q) needPow2() {
	key := "(declare-fun pow2 (Int) Int)"
	for _, l := range q.lines {
		if l == key {
			return
		}
	}
	q.lines = append(q.lines, key)
	for i := 0; i <= 64; i++ {
		q.lines = append(q.lines, fmt.Sprintf("(assert (= (pow2 %d) %s))", i, pow2(i).String()))
	}
	q.lines = append(q.lines, "(assert (forall ((x Int)) (! (> (pow2 x) 0) :pattern ((pow2 x)))))")
}

// convert integer x of type from to type to.
func (a Arith) conv(from, to IntT, x string) string {
	if v, ok := a.parseLit(from, x); ok {
		return a.lit(to, v)
	}
	if a.intMode {
		// value preserved if it fits, else wrapped
		if from.Signed == to.Signed && to.Bits >= from.Bits {
			return x
		}
		if !from.Signed && to.Bits > from.Bits {
			return x
		}
		return a.wrap(to, x)
	}
	switch {
	case to.Bits == from.Bits:
		return x
	case to.Bits < from.Bits:
		return fmt.Sprintf("((_ extract %d 0) %s)", to.Bits-1, x)
	default:
		if from.Signed {
			return fmt.Sprintf("((_ sign_extend %d) %s)", to.Bits-from.Bits, x)
		}
		return fmt.Sprintf("((_ zero_extend %d) %s)", to.Bits-from.Bits, x)
	}
}

// header emitted before every query
func smtHeader(intMode bool, extra []string) string {
	idx := "(_ BitVec 64)"
	if intMode {
		idx = "Int"
	}
	var b strings.Builder
	b.WriteString("(define-sort F64 () (_ FloatingPoint 11 53))\n")
	b.WriteString("(declare-datatypes ((Addr 0)) (((nil) (obj (oid Int)) (glob (gid Int)) (fld (fbase Addr) (fid Int)) (elem (ebase Addr) (eidx " + idx + ")))))\n")
	b.WriteString("(define-fun base1 ((a Addr)) Addr (ite ((_ is fld) a) (fbase a) (ite ((_ is elem) a) (ebase a) a)))\n")
	b.WriteString("(define-fun root ((a Addr)) Addr (base1 (base1 (base1 (base1 (base1 (base1 (base1 (base1 a)))))))))\n")
	b.WriteString("(define-fun rid ((a Addr)) Int (ite ((_ is obj) (root a)) (oid (root a)) (- 1)))\n")
	for _, l := range extra {
		b.WriteString(l)
		b.WriteString("\n")
	}
	return b.String()
}

// ---------- float64: IEEE-754 binary64 through the SMT FloatingPoint theory ----------

// f64Lit: exact literal from the bit pattern.
func f64Lit(f float64) string {
	bits := math.Float64bits(f)
	return fmt.Sprintf("(fp #b%01b #b%011b #x%013x)", bits>>63, (bits>>52)&0x7ff, bits&((1<<52)-1))
}

func f64Bin(op string, a, b string) string {
	switch op {
	case "+":
		return "(fp.add RNE " + a + " " + b + ")"
	case "-":
		return "(fp.sub RNE " + a + " " + b + ")"
	case "*":
		return "(fp.mul RNE " + a + " " + b + ")"
	case "/":
		return "(fp.div RNE " + a + " " + b + ")"
	case "<":
		return "(fp.lt " + a + " " + b + ")"
	case "<=":
		return "(fp.leq " + a + " " + b + ")"
	case ">":
		return "(fp.gt " + a + " " + b + ")"
	case ">=":
		return "(fp.geq " + a + " " + b + ")"
	case "==":
		return "(fp.eq " + a + " " + b + ")"
	case "!=":
		return "(not (fp.eq " + a + " " + b + "))"
	}
	return ""
}

// f64FromInt / f64ToInt: conversions in the bit-vector encoding (Go truncates towards zero).
// In the Int encoding there is no exact bridge: callers fall back to an unconstrained value.
func (a Arith) f64FromInt(t IntT, x string) (string, bool) {
	if a.intMode {
		return "", false
	}
	if t.Signed {
		return "((_ to_fp 11 53) RNE " + x + ")", true
	}
	return "((_ to_fp_unsigned 11 53) RNE " + x + ")", true
}

func (a Arith) f64ToInt(t IntT, x string) (string, bool) {
	if a.intMode {
		return "", false
	}
	if t.Signed {
		return fmt.Sprintf("((_ fp.to_sbv %d) RTZ %s)", t.Bits, x), true
	}
	return fmt.Sprintf("((_ fp.to_ubv %d) RTZ %s)", t.Bits, x), true
}
