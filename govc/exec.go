package main

import (
	"fmt"
	"go/ast"
	"go/constant"
	"go/token"
	"go/types"
	"math/big"
	"sort"
	"strings"

	"golang.org/x/tools/go/ssa"
)

type Obl struct {
	Name    string
	Kind    string
	Pos     int // prelude length at which the obligation was raised
	Reach   string
	Cond    string
	Fn      string // function key the obligation belongs to
	Label   string // contract clause label ("" for safety obligations)
	Text    string // source text / clause text
	SrcPos  string
	Thor    bool
	Cover   bool // vacuity query: expected SAT
	noSplit bool
	Slow    bool
	Clause  CExpr // contract clause behind a post/objinv obligation (for replay)
	ClCx    *Ctx
	SelfIs  string
	Mode    string
	Bounded int
}

type Exec struct {
	callResLayout map[string]*Layout   // result layout of callees recorded in the ghost call log
	callArgLayout map[string][]*Layout // argument layouts of callees recorded in the ghost call log

	P    *Prog
	q    *Q
	ar   Arith
	ls   *layouts
	top  *ssa.Function
	spec *FuncSpec

	heapSorts map[string]Sort
	initHeaps map[string]*HeapV
	factDone  map[string]bool
	events    map[string]*heapEvent
	nEvents   int
	havocked  map[string]bool
	ctr0      string

	obls         []*Obl
	nameCount    map[string]int
	trusted      map[string]bool // assumptions actually used (stubs, inlined callees, ...)
	inlined      map[string]bool
	inputs       []inputSym
	strLits      map[string]string
	globIDs      map[string]int
	thorough     bool
	termUnproved []string
	usesQuant    bool
	usesLambda   bool
	branches     []branchCond
	branchSeen   map[string]bool
	retSiteHits  map[string]int
	autoOff      map[string]bool // disabled auto-invariant candidates (Houdini)
	autoSeen     []string
}

type inputSym struct {
	Name string
	Type types.Type
	Val  *Val
}

type retRec struct {
	reach string
	val   *Val
	st    *State
}

type loopInfo struct {
	header    *ssa.BasicBlock
	body      map[*ssa.BasicBlock]bool
	latches   []*ssa.BasicBlock
	ordinal   int // 1-based source ordinal (0 = unmapped)
	stmt      ast.Node
	entrySt   *State          // state just after havoc (iteration start), for old() in step clauses
	entryVals map[string]*Val // phi name -> value at iteration start
	mods      map[string]bool
	preSt     *State               // state just before the loop is entered (for pre(...))
	onlyVia   map[string]ssa.Value // family -> the single outside-defined slice through which the loop writes it
	autos     []*autoInv
}

type Frame struct {
	ex        *Exec
	noAssume  bool // the clause being obliged is check-only (not assumed afterwards)
	fn        *ssa.Function
	spec      *FuncSpec
	vals      map[ssa.Value]*Val
	reach     map[*ssa.BasicBlock]string
	outSt     map[*ssa.BasicBlock]*State
	envOut    map[*ssa.BasicBlock]map[string]envEnt
	env       map[string]envEnt // current block env
	depth     int
	prefix    string
	parent    *Frame
	rets      []retRec
	loops     map[*ssa.BasicBlock]*loopInfo
	inLoop    map[*ssa.BasicBlock]*loopInfo // innermost loop containing block
	defers    []*ssa.Defer
	entrySt   *State
	params    map[string]*Val
	paramT    map[string]types.Type
	cur       *ssa.BasicBlock
	lookBlock *ssa.BasicBlock // contract identifier resolution point
	lookAtEnd bool
	lookIdx   int // when > 0: only instructions before this index of lookBlock are visible
	asserts   map[*ssa.BasicBlock]map[int][]*Clause
	st        *State
	backEdges map[[2]*ssa.BasicBlock]bool
	callStack []*ssa.Function
	callArgs  []ssa.Value // arguments of the call that created this (inlined) frame
	localMaps map[ssa.Value]*localMap
}

type envEnt struct {
	v      ssa.Value
	isAddr bool
}

func newExec(P *Prog, fn *ssa.Function, spec *FuncSpec, thorough bool, forceMode string) *Exec {
	intMode := spec != nil && spec.Mode == "int"
	if forceMode != "" {
		intMode = forceMode == "int"
	}
	ar := Arith{intMode}
	ex := &Exec{P: P, q: newQ(intMode), ar: ar, ls: &layouts{ar: ar, cache: map[types.Type]*Layout{}}, top: fn, spec: spec,
		heapSorts: map[string]Sort{}, initHeaps: map[string]*HeapV{}, factDone: map[string]bool{}, events: map[string]*heapEvent{},
		havocked: map[string]bool{}, nameCount: map[string]int{}, trusted: map[string]bool{}, inlined: map[string]bool{},
		strLits: map[string]string{}, globIDs: map[string]int{}, thorough: thorough, branchSeen: map[string]bool{}, retSiteHits: map[string]int{}}
	ex.ctr0 = ex.q.fresh("ctr0", SInt)
	ex.q.assume("(>= " + ex.ctr0 + " 0)")
	ex.q.lines = append(ex.q.lines, "(define-fun f64zero () F64 (_ +zero 11 53))")
	return ex
}

// noteBranch records a branch condition (a named Boolean term) together
// with the prelude position from which it is defined, for cube splitting.
func (ex *Exec) noteBranch(c string) {
	if c == "true" || c == "false" || strings.ContainsAny(c, " (") {
		if strings.HasPrefix(c, "(not ") && !strings.ContainsAny(c[5:len(c)-1], " (") {
			c = c[5 : len(c)-1]
		} else {
			return
		}
	}
	if ex.branchSeen[c] {
		return
	}
	ex.branchSeen[c] = true
	ex.branches = append(ex.branches, branchCond{c, ex.q.pos()})
}

type branchCond struct {
	name string
	pos  int
}

func (ex *Exec) idx(v int64) string { return ex.ar.litI(IntT{64, true}, v) }

var idxT = IntT{64, true}

const maxLenBits = 47

// ---------- obligations ----------

func (fr *Frame) oblName(kind, text string) string {
	base := fr.ex.P.keyOf[fr.ex.top]
	base = strings.TrimPrefix(base, lalPrefix+"pkg/")
	base = strings.TrimPrefix(base, nazaPrefix+"pkg/")
	n := base + ":" + kind + ":" + fr.prefix + text
	k := fr.ex.nameCount[n]
	fr.ex.nameCount[n] = k + 1
	return fmt.Sprintf("%s#%d", n, k)
}

func (fr *Frame) oblige(kind, text, cond string, pos token.Pos) *Obl {
	if cond == "true" {
		// still count the name so ordinals stay stable, but nothing to prove
		fr.oblName(kind, text)
		return nil
	}
	o := &Obl{Name: fr.oblName(kind, text), Kind: kind, Pos: fr.ex.q.pos(), Reach: fr.reach[fr.cur], Cond: cond,
		Fn: fr.ex.P.keyOf[fr.ex.top], Text: text}
	if pos.IsValid() {
		p := fr.ex.P.fset.Position(pos)
		o.SrcPos = fmt.Sprintf("%s:%d", strings.TrimPrefix(p.Filename, fr.ex.P.repo+"/"), p.Line)
	}
	fr.ex.obls = append(fr.ex.obls, o)
	// after the check the program continues only if it held (array equalities
	// of heap summaries are not re-assumed: the summary heap is used instead)
	if !strings.Contains(cond, "(lambda ") && !fr.noAssume {
		fr.ex.q.assume(implies(o.Reach, cond))
	}
	return o
}

func (fr *Frame) locText(pos token.Pos, fallback string) string {
	if n, ok := fr.ex.P.byPos[pos]; ok {
		if t := fr.ex.P.nodeText(n); t != "" {
			if len(t) > 80 {
				t = t[:80]
			}
			return t
		}
	}
	return fallback
}

// ---------- values ----------

func (ex *Exec) freshVal(l *Layout, name string) *Val {
	switch l.Kind {
	case LScalar:
		t := ex.q.fresh(name, l.Sort)
		if l.Int != nil {
			ex.q.assume(ex.ar.inRange(*l.Int, t))
		}
		return sv(t)
	case LSlice:
		v := &Val{C: []*Val{sv(ex.q.fresh(name+".base", SAddr)), sv(ex.q.fresh(name+".off", ex.ar.idxSort())),
			sv(ex.q.fresh(name+".len", ex.ar.idxSort())), sv(ex.q.fresh(name+".cap", ex.ar.idxSort()))}}
		ex.assumeSliceWF(v)
		return v
	case LString:
		v := &Val{C: []*Val{sv(ex.q.fresh(name+".base", SAddr)), sv(ex.q.fresh(name+".off", ex.ar.idxSort())),
			sv(ex.q.fresh(name+".len", ex.ar.idxSort()))}}
		ex.assumeStringWF(v)
		return v
	case LIface:
		v := &Val{C: []*Val{sv(ex.q.fresh(name+".tag", SInt)), sv(ex.q.fresh(name+".ptr", SAddr))}}
		ex.q.assume("(>= " + v.C[0].T + " 0)")
		return v
	case LStruct, LTuple:
		v := &Val{}
		for i, f := range l.Fields {
			n := fmt.Sprint(i)
			if i < len(l.Names) && l.Names[i] != "" {
				n = l.Names[i]
			}
			v.C = append(v.C, ex.freshVal(f, name+"."+n))
		}
		if v.C == nil {
			v.C = []*Val{}
		}
		return v
	case LArray:
		if l.N > maxArrayVal {
			panic(unsupported("large array value"))
		}
		v := &Val{C: []*Val{}}
		for i := int64(0); i < l.N; i++ {
			v.C = append(v.C, ex.freshVal(l.Elem, fmt.Sprintf("%s.%d", name, i)))
		}
		return v
	}
	panic(unsupported("fresh value of " + l.T.String()))
}

func (ex *Exec) assumeSliceWF(v *Val) {
	a := ex.ar
	z := ex.idx(0)
	mx := a.lit(idxT, pow2(maxLenBits))
	ex.q.assume(and(a.cmp("<=", idxT, z, v.C[1].T), a.cmp("<=", idxT, v.C[1].T, mx),
		a.cmp("<=", idxT, z, v.C[2].T), a.cmp("<=", idxT, v.C[2].T, v.C[3].T), a.cmp("<=", idxT, v.C[3].T, mx),
		implies(eq(v.C[0].T, "nil"), eq(v.C[3].T, z))))
}

func (ex *Exec) assumeStringWF(v *Val) {
	a := ex.ar
	z := ex.idx(0)
	mx := a.lit(idxT, pow2(maxLenBits))
	ex.q.assume(and(a.cmp("<=", idxT, z, v.C[1].T), a.cmp("<=", idxT, v.C[1].T, mx),
		a.cmp("<=", idxT, z, v.C[2].T), a.cmp("<=", idxT, v.C[2].T, mx)))
}

// assumeOld: every pointer component of v refers to an object allocated
// before ctr.
func (ex *Exec) assumeAllocated(l *Layout, v *Val, ctr string) {
	switch l.Kind {
	case LScalar:
		if l.Sort == SAddr {
			ex.q.assume("(< (rid " + v.T + ") " + ctr + ")")
		}
	case LSlice, LString:
		ex.q.assume("(< (rid " + v.C[0].T + ") " + ctr + ")")
	case LIface:
		ex.q.assume("(< (rid " + v.C[1].T + ") " + ctr + ")")
	case LStruct, LTuple:
		for i, f := range l.Fields {
			ex.assumeAllocated(f, v.C[i], ctr)
		}
	case LArray:
		for i := range v.C {
			ex.assumeAllocated(l.Elem, v.C[i], ctr)
		}
	}
}

func (ex *Exec) iteVal(l *Layout, c string, a, b *Val) *Val {
	return ex.ls.zip(l, []*Val{a, b}, func(s Sort, ts []string) string { return ex.q.def("m", s, ite(c, ts[0], ts[1])) })
}

func (ex *Exec) eqVal(l *Layout, a, b *Val) string {
	var cs []string
	ex.ls.zip(l, []*Val{a, b}, func(s Sort, ts []string) string { cs = append(cs, eq(ts[0], ts[1])); return "" })
	return and(cs...)
}

func (ex *Exec) constVal(c *ssa.Const) *Val {
	l := ex.ls.of(c.Type())
	if c.Value == nil {
		return ex.ls.zero(l)
	}
	switch l.Kind {
	case LScalar:
		switch {
		case l.Sort == SBool:
			if constant.BoolVal(c.Value) {
				return sv("true")
			}
			return sv("false")
		case l.Int != nil:
			v, ok := constant.Val(constant.ToInt(c.Value)).(*big.Int)
			if !ok {
				i64, _ := constant.Int64Val(constant.ToInt(c.Value))
				v = big.NewInt(i64)
			}
			return sv(ex.ar.lit(*l.Int, v))
		case l.Sort == SF64:
			f, _ := constant.Float64Val(c.Value)
			if f == 0 {
				return sv("f64zero")
			}
			if isFloat64(c.Type()) {
				return sv(f64Lit(f))
			}
			return sv(ex.floatConst(fmt.Sprint(f)))
		}
	case LString:
		return ex.strConst(constant.StringVal(c.Value))
	}
	panic(unsupported("constant of type " + c.Type().String()))
}

func (ex *Exec) floatConst(s string) string {
	name := "f64c_" + sanitize(s)
	key := "(declare-const " + name + " F64)"
	for _, l := range ex.q.lines {
		if l == key {
			return name
		}
	}
	ex.q.lines = append(ex.q.lines, key)
	return name
}

func (ex *Exec) s8Key() string {
	key := "S8#0"
	if _, ok := ex.heapSorts[key]; !ok {
		ex.heapSorts[key] = ex.ar.sort(IntT{8, false})
	}
	return key
}

func (ex *Exec) strConst(s string) *Val {
	if name, ok := ex.strLits[s]; ok {
		return &Val{C: []*Val{sv(name), sv(ex.idx(0)), sv(ex.idx(int64(len(s))))}}
	}
	id := 1000000 + len(ex.strLits)
	name := fmt.Sprintf("(glob %d)", id)
	ex.strLits[s] = name
	if len(s) <= 64 {
		// contents of the literal in the immutable string heap
		empty := &State{heaps: map[string]*HeapV{}, events: map[string]string{}}
		h := ex.heap(empty, ex.s8Key())
		for i := 0; i < len(s); i++ {
			ex.q.assume(eq("(select "+h.term+" (elem "+name+" "+ex.idx(int64(i))+"))", ex.ar.litI(IntT{8, false}, int64(s[i]))))
		}
	}
	return &Val{C: []*Val{sv(name), sv(ex.idx(0)), sv(ex.idx(int64(len(s))))}}
}

func (ex *Exec) globAddr(name string) string {
	id, ok := ex.globIDs[name]
	if !ok {
		id = len(ex.globIDs) + 1
		ex.globIDs[name] = id
	}
	return fmt.Sprintf("(glob %d)", id)
}

func (fr *Frame) val(v ssa.Value) *Val {
	switch x := v.(type) {
	case *ssa.Const:
		return fr.ex.constVal(x)
	case *ssa.Global:
		return sv(fr.ex.globAddr(x.String()))
	case *ssa.Function:
		return sv(fr.ex.globAddr("func " + x.String()))
	case *ssa.Builtin:
		return sv("nil")
	}
	if r, ok := fr.vals[v]; ok {
		return r
	}
	if fv, ok := v.(*ssa.FreeVar); ok {
		l := fr.ex.ls.of(fv.Type())
		r := fr.ex.freshVal(l, "fv_"+fv.Name())
		fr.ex.assumeAllocated(l, r, fr.ex.ctr0)
		if l.Kind == LScalar && l.Sort == SAddr {
			// captured variables are addresses of live variables
			if _, isPtr := fv.Type().Underlying().(*types.Pointer); isPtr {
				fr.ex.q.assume(not(eq(r.T, "nil")))
			}
		}
		fr.vals[v] = r
		return r
	}
	panic(fmt.Sprintf("no value for %s (%T) in %s", v.Name(), v, fr.fn))
}

// ---------- memory ----------

func (ex *Exec) idxConst(i int64) string { return ex.idx(i) }

func compAddr(addr string, k int) string { return fmt.Sprintf("(fld %s (- %d))", addr, k+1) }

func (ex *Exec) load(st *State, addr string, l *Layout, hint string, facts bool) *Val {
	switch l.Kind {
	case LScalar:
		var t string
		if hint != "" {
			t = ex.loadLeaf(st, ex.hKey(hint, 0, l.Sort), addr, facts)
		} else {
			t = ex.loadLeaf(st, ex.pKey(leafClass(l)), addr, facts)
		}
		if ex.ar.intMode && l.Int != nil && facts {
			// typed heap: integer cells hold values of their type
			ex.q.assume(ex.ar.inRange(*l.Int, t))
		}
		return sv(t)
	case LSlice, LString, LIface:
		sorts := ex.ls.compSorts(l)
		classes := []string{"Addr", "bv64", "bv64", "bv64"}
		if l.Kind == LIface {
			classes = []string{"Int", "Addr"}
		}
		v := &Val{C: make([]*Val, len(sorts))}
		for k, s := range sorts {
			if hint != "" {
				v.C[k] = sv(ex.loadLeaf(st, ex.hKey(hint, k, s), addr, facts))
			} else {
				v.C[k] = sv(ex.loadLeaf(st, ex.pKey(classes[k]), compAddr(addr, k), facts))
			}
		}
		if facts {
			switch l.Kind {
			case LSlice:
				ex.assumeSliceWF(v)
			case LString:
				ex.assumeStringWF(v)
			case LIface:
				ex.q.assume("(>= " + v.C[0].T + " 0)")
			}
		}
		return v
	case LStruct:
		v := &Val{C: make([]*Val, len(l.Fields))}
		for i, f := range l.Fields {
			h := ""
			if l.Named != nil && ex.P.cleanField(l.Named, i) && f.Kind != LStruct && f.Kind != LArray {
				h = "H:" + fieldKey(l.Named, i)
			}
			v.C[i] = ex.load(st, fmt.Sprintf("(fld %s %d)", addr, i), f, h, facts)
		}
		return v
	case LArray:
		if l.N > maxArrayVal {
			panic(unsupported("load of large array value"))
		}
		v := &Val{C: make([]*Val, l.N)}
		for i := int64(0); i < l.N; i++ {
			v.C[i] = ex.load(st, fmt.Sprintf("(elem %s %s)", addr, ex.idx(i)), l.Elem, "", facts)
		}
		return v
	}
	panic(unsupported("load of " + l.T.String()))
}

func (ex *Exec) store(st *State, addr string, l *Layout, hint string, v *Val) {
	switch l.Kind {
	case LScalar:
		if hint != "" {
			ex.storeLeaf(st, ex.hKey(hint, 0, l.Sort), addr, v.T)
		} else {
			ex.storeLeaf(st, ex.pKey(leafClass(l)), addr, v.T)
		}
	case LSlice, LString, LIface:
		sorts := ex.ls.compSorts(l)
		classes := []string{"Addr", "bv64", "bv64", "bv64"}
		if l.Kind == LIface {
			classes = []string{"Int", "Addr"}
		}
		for k, s := range sorts {
			if hint != "" {
				ex.storeLeaf(st, ex.hKey(hint, k, s), addr, v.C[k].T)
			} else {
				ex.storeLeaf(st, ex.pKey(classes[k]), compAddr(addr, k), v.C[k].T)
			}
		}
	case LStruct:
		for i, f := range l.Fields {
			h := ""
			if l.Named != nil && ex.P.cleanField(l.Named, i) && f.Kind != LStruct && f.Kind != LArray {
				h = "H:" + fieldKey(l.Named, i)
			}
			ex.store(st, fmt.Sprintf("(fld %s %d)", addr, i), f, h, v.C[i])
		}
	case LArray:
		if l.N > maxArrayVal {
			panic(unsupported("store of large array value"))
		}
		for i := int64(0); i < l.N; i++ {
			ex.store(st, fmt.Sprintf("(elem %s %s)", addr, ex.idx(i)), l.Elem, "", v.C[i])
		}
	default:
		panic(unsupported("store of " + l.T.String()))
	}
}

func (ex *Exec) alloc(st *State, name string) string {
	n := ex.q.fresh("obj_"+name, SInt)
	ex.q.assume("(>= " + n + " " + st.ctr + ")")
	st.ctr = ex.q.def("ctr", SInt, "(+ "+n+" 1)")
	return "(obj " + n + ")"
}

// elemAddr: address of element i (idx-sorted term) of a slice value.
func (ex *Exec) elemAddr(s *Val, i string) string {
	return "(elem " + s.C[0].T + " " + ex.ar.add(idxT, s.C[1].T, i) + ")"
}

// ---------- CFG helpers ----------

func (fr *Frame) analyzeLoops() {
	fn := fr.fn
	fr.loops = map[*ssa.BasicBlock]*loopInfo{}
	fr.inLoop = map[*ssa.BasicBlock]*loopInfo{}
	fr.backEdges = map[[2]*ssa.BasicBlock]bool{}
	for _, b := range fn.Blocks {
		for _, s := range b.Succs {
			if s.Dominates(b) {
				fr.backEdges[[2]*ssa.BasicBlock{b, s}] = true
				li := fr.loops[s]
				if li == nil {
					li = &loopInfo{header: s, body: map[*ssa.BasicBlock]bool{s: true}}
					fr.loops[s] = li
				}
				li.latches = append(li.latches, b)
				// natural loop body
				stack := []*ssa.BasicBlock{b}
				for len(stack) > 0 {
					x := stack[len(stack)-1]
					stack = stack[:len(stack)-1]
					if li.body[x] {
						continue
					}
					li.body[x] = true
					stack = append(stack, x.Preds...)
				}
			}
		}
	}
	// innermost loop per block
	var lis []*loopInfo
	for _, li := range fr.loops {
		lis = append(lis, li)
	}
	sort.Slice(lis, func(i, j int) bool { return len(lis[i].body) > len(lis[j].body) })
	for _, li := range lis {
		for b := range li.body {
			fr.inLoop[b] = li
		}
	}
	// map to source loops
	var stmts []ast.Node
	if syn := fn.Syntax(); syn != nil {
		var body *ast.BlockStmt
		switch s := syn.(type) {
		case *ast.FuncDecl:
			body = s.Body
		case *ast.FuncLit:
			body = s.Body
		}
		if body != nil {
			ast.Inspect(body, func(n ast.Node) bool {
				switch n.(type) {
				case *ast.FuncLit:
					return false
				case *ast.ForStmt, *ast.RangeStmt:
					stmts = append(stmts, n)
				}
				return true
			})
		}
	}
	for _, li := range fr.loops {
		// innermost statement containing all positioned non-phi instructions of the loop body
		best := -1
		for i, s := range stmts {
			ok := true
			any := false
			for b := range li.body {
				for _, in := range b.Instrs {
					if _, isPhi := in.(*ssa.Phi); isPhi {
						continue
					}
					if _, isDbg := in.(*ssa.DebugRef); isDbg {
						continue
					}
					p := in.Pos()
					if !p.IsValid() {
						continue
					}
					any = true
					if p < s.Pos() || p >= s.End() {
						ok = false
					}
				}
			}
			if ok && any {
				if best < 0 || (stmts[best].Pos() <= s.Pos() && s.End() <= stmts[best].End()) {
					best = i
				}
			}
		}
		if best >= 0 {
			li.ordinal = best + 1
			li.stmt = stmts[best]
		}
	}
	fr.placeAsserts()
	// loop memory footprints
	for _, li := range fr.loops {
		li.mods = map[string]bool{}
		add := func(s string) { li.mods[s] = true }
		for b := range li.body {
			for _, in := range b.Instrs {
				fr.ex.P.instrMods(in, add)
				if c, ok := in.(ssa.CallInstruction); ok {
					if _, isGo := in.(*ssa.Go); isGo {
						continue
					}
					fr.ex.callMods(c.Common(), add)
				}
			}
		}
	}
}

// callMods: families a call may write.
// singleSliceWrites: for each shared family written in the loop, the one
// slice value (defined outside the loop) through whose elements all of those
// writes go, if that is syntactically evident: every store to the family in
// the loop body is *IndexAddr(S, _) = v (bounds-checked) and no call, copy or
// append in the body may write the family.
func (fr *Frame) singleSliceWrites(li *loopInfo) map[string]ssa.Value {
	out := map[string]ssa.Value{}
	bad := map[string]bool{}
	for b := range li.body {
		for _, in := range b.Instrs {
			switch x := in.(type) {
			case *ssa.Store:
				fams := map[string]bool{}
				fr.ex.P.instrMods(in, func(s string) { fams[s] = true })
				ia, ok := x.Addr.(*ssa.IndexAddr)
				okS := false
				if ok {
					if _, isSl := ia.X.Type().Underlying().(*types.Slice); isSl && fr.definedOutside(li, ia.X) {
						okS = true
					}
				}
				for f := range fams {
					if !strings.HasPrefix(f, "P:") {
						continue
					}
					if !okS {
						bad[f] = true
						continue
					}
					if prev, has := out[f]; has && prev != ia.X {
						bad[f] = true
					}
					out[f] = ia.X
				}
			case ssa.CallInstruction:
				if _, isGo := in.(*ssa.Go); isGo {
					continue
				}
				fr.ex.P.instrMods(in, func(s string) { bad[s] = true })
				fr.ex.callMods(x.Common(), func(s string) { bad[s] = true })
			}
		}
	}
	for f := range bad {
		delete(out, f)
	}
	return out
}

func (ex *Exec) callMods(c *ssa.CallCommon, add func(string)) {
	if c.IsInvoke() && isLoggerIface(c.Value.Type()) {
		return
	}
	if callee := c.StaticCallee(); callee != nil {
		if ex.P.pureExternal(callee) {
			return
		}
		if sp := ex.P.specFor(callee); sp != nil && len(sp.Modifies) > 0 {
			for _, m := range sp.Modifies {
				if m != "nothing" {
					add(m)
				}
			}
			return
		}
		if sp := ex.P.specFor(callee); sp != nil && sp.Pure {
			return
		}
	}
	ts, ext := ex.P.callTargets(c)
	if ext {
		args := c.Args
		if c.IsInvoke() {
			args = append([]ssa.Value{c.Value}, args...)
		}
		if callee := c.StaticCallee(); callee != nil {
			if m, ok := externModels[callee.String()]; ok && m.mods != nil {
				m.mods(ex.P, args, add)
			} else {
				ex.P.externalMods(args, add)
			}
		} else {
			ex.P.externalMods(args, add)
		}
	}
	for _, t := range ts {
		for k := range ex.P.mods[t] {
			add(k)
		}
	}
}

func (fr *Frame) rpo() []*ssa.BasicBlock {
	seen := map[*ssa.BasicBlock]bool{}
	var order []*ssa.BasicBlock
	var dfs func(b *ssa.BasicBlock)
	dfs = func(b *ssa.BasicBlock) {
		seen[b] = true
		for i := len(b.Succs) - 1; i >= 0; i-- {
			s := b.Succs[i]
			if fr.backEdges[[2]*ssa.BasicBlock{b, s}] || seen[s] {
				continue
			}
			dfs(s)
		}
		order = append(order, b)
	}
	dfs(fr.fn.Blocks[0])
	for i, j := 0, len(order)-1; i < j; i, j = i+1, j-1 {
		order[i], order[j] = order[j], order[i]
	}
	return order
}

// edgeCond: condition (including reachability of the source) under which
// control flows along p -> b.
func (fr *Frame) edgeCond(p, b *ssa.BasicBlock) string {
	r := fr.reach[p]
	if iff, ok := p.Instrs[len(p.Instrs)-1].(*ssa.If); ok {
		c := fr.val(iff.Cond).T
		fr.ex.noteBranch(c)
		if p.Succs[0] == b && p.Succs[1] == b {
			return r
		}
		if p.Succs[0] == b {
			return and(r, c)
		}
		return and(r, not(c))
	}
	return r
}

// ---------- function execution ----------

func (fr *Frame) run(entryReach string, st *State) (ret *Val, out *State, retReach string) {
	ex := fr.ex
	fr.analyzeLoops()
	fr.reach = map[*ssa.BasicBlock]string{}
	fr.outSt = map[*ssa.BasicBlock]*State{}
	fr.envOut = map[*ssa.BasicBlock]map[string]envEnt{}
	fr.entrySt = st.clone()
	order := fr.rpo()
	for _, b := range order {
		fr.cur = b
		// environment from the immediate dominator
		fr.env = map[string]envEnt{}
		if id := b.Idom(); id != nil {
			for k, v := range fr.envOut[id] {
				fr.env[k] = v
			}
		}
		if b == fr.fn.Blocks[0] {
			fr.reach[b] = entryReach
			fr.st = st.clone()
		} else {
			var preds []*ssa.BasicBlock
			for _, p := range b.Preds {
				if fr.backEdges[[2]*ssa.BasicBlock{p, b}] {
					continue
				}
				if _, done := fr.reach[p]; !done {
					continue // unreachable predecessor (e.g. after panic)
				}
				preds = append(preds, p)
			}
			if len(preds) == 0 {
				continue
			}
			conds := make([]string, len(preds))
			states := make([]*State, len(preds))
			for i, p := range preds {
				conds[i] = ex.q.def("e", SBool, fr.edgeCond(p, b))
				states[i] = fr.outSt[p]
			}
			fr.reach[b] = ex.q.def("r_"+fr.fn.Name()+fmt.Sprint(b.Index), SBool, or(conds...))
			fr.st = ex.merge(states, conds)
			// phis
			for _, in := range b.Instrs {
				phi, ok := in.(*ssa.Phi)
				if !ok {
					break
				}
				l := ex.ls.of(phi.Type())
				var vs []*Val
				var cs []string
				for i, p := range b.Preds {
					for j, pp := range preds {
						if pp == p {
							vs = append(vs, fr.val(phi.Edges[i]))
							cs = append(cs, conds[j])
						}
					}
				}
				v := vs[len(vs)-1]
				for i := len(vs) - 2; i >= 0; i-- {
					v = ex.iteVal(l, cs[i], vs[i], v)
				}
				fr.vals[phi] = v
			}
		}
		if li := fr.loops[b]; li != nil {
			fr.loopHead(li)
		}
		fr.execBlock(b)
		fr.outSt[b] = fr.st
		fr.envOut[b] = fr.env
	}
	// merge returns
	if len(fr.rets) == 0 {
		return nil, fr.st, "false"
	}
	conds := make([]string, len(fr.rets))
	states := make([]*State, len(fr.rets))
	for i, r := range fr.rets {
		conds[i] = r.reach
		states[i] = r.st
	}
	out = ex.merge(states, conds)
	retReach = ex.q.def("ret", SBool, or(conds...))
	rl := ex.ls.of(fr.fn.Signature.Results())
	if len(rl.Fields) > 0 {
		ret = fr.rets[len(fr.rets)-1].val
		for i := len(fr.rets) - 2; i >= 0; i-- {
			ret = ex.iteVal(rl, conds[i], fr.rets[i].val, ret)
		}
	} else {
		ret = &Val{C: []*Val{}}
	}
	return
}

func (fr *Frame) phiName(phi *ssa.Phi) string { return phi.Comment }

// loopHead: cut the loop at its header (DESIGN §2.4).
func (fr *Frame) loopHead(li *loopInfo) {
	ex := fr.ex
	b := li.header
	var ls *LoopSpec
	if fr.spec != nil && li.ordinal > 0 {
		ls = fr.spec.Loops[li.ordinal]
	}
	ls = ls.forTier(ex.thorough)
	fr.lookBlock, fr.lookAtEnd = b, false
	li.preSt = fr.st.clone()
	li.autos = fr.autoCandidates(li)
	for _, a := range li.autos {
		fr.oblige("inv-entry", fmt.Sprintf("loop%d:auto:%s", li.ordinal, a.name), a.cond(fr, fr.vals[a.phi]), token.NoPos)
	}
	// 1. invariants on entry
	if ls != nil {
		for _, c := range ls.Invariants {
			if c.Thor && !ex.thorough {
				continue
			}
			cx := fr.loopCtx(li, nil, fr.st, true)
			cond := cx.evalBool(c.Expr)
			o := fr.oblige("inv-entry", fmt.Sprintf("loop%d:%s", li.ordinal, clauseName(c)), cond, token.NoPos)
			if o != nil {
				o.Label, o.Mode, o.Slow = c.Label, c.Mode, c.Slow
			}
		}
	}
	// heap summaries (fills): entry check against the pre-loop heap
	filled := map[string]bool{}
	if ls != nil {
		for i, f := range ls.Fills {
			cx := fr.loopCtx(li, nil, fr.st, false)
			key, lam := fr.fillLambda(cx, f, li.preSt)
			filled[famOfKey(key)] = true
			fr.oblige("inv-entry", fmt.Sprintf("loop%d:fills%d:%s", li.ordinal, i, f.Src), eq(ex.heap(fr.st, key).term, lam), token.NoPos)
		}
	}
	// 2. havoc
	for _, in := range b.Instrs {
		phi, ok := in.(*ssa.Phi)
		if !ok {
			break
		}
		l := ex.ls.of(phi.Type())
		nv := ex.freshVal(l, "loop_"+phi.Comment)
		fr.vals[phi] = nv
	}
	hm := map[string]bool{}
	for k := range li.mods {
		if !filled[k] {
			hm[k] = true
		}
	}
	ex.havocFamilies(fr.st, hm)
	if ls != nil {
		for _, f := range ls.Fills {
			cx := fr.loopCtx(li, nil, fr.st, false)
			key, lam := fr.fillLambda(cx, f, li.preSt)
			ex.q.n++
			name := fmt.Sprintf("Hfill_%s!%d", sanitize(key), ex.q.n)
			ex.q.lines = append(ex.q.lines, fmt.Sprintf("(define-fun %s () %s %s)", name, arraySort(ex.heapSort(key)), lam))
			fr.st.heaps[key] = &HeapV{term: name, bases: ex.heap(li.preSt, key).bases}
			ex.usesLambda = true
		}
	}
	// loaded pointers in fresh values refer to allocated objects
	for _, in := range b.Instrs {
		phi, ok := in.(*ssa.Phi)
		if !ok {
			break
		}
		ex.assumeAllocated(ex.ls.of(phi.Type()), fr.vals[phi], fr.st.ctr)
	}
	// automatic frame: a family written only through the elements of one slice
	// keeps every cell outside that slice
	for fam, sl := range fr.singleSliceWrites(li) {
		if filled[fam] {
			continue
		}
		svv := fr.val(sl)
		for _, key := range []string{ex.pKey(strings.TrimPrefix(fam, "P:"))} {
			oldH := ex.heap(li.preSt, key)
			newH := ex.heap(fr.st, key)
			in := and("((_ is elem) a)", eq("(ebase a)", svv.C[0].T), ex.ar.cmp("<=", idxT, svv.C[1].T, "(eidx a)"),
				ex.ar.cmp("<", idxT, "(eidx a)", ex.ar.add(idxT, svv.C[1].T, svv.C[2].T)))
			if useLambda {
				ex.q.n++
				name := fmt.Sprintf("Hf_%s!%d", sanitize(key), ex.q.n)
				ex.q.lines = append(ex.q.lines, fmt.Sprintf("(define-fun %s () %s (lambda ((a Addr)) (ite %s (select %s a) (select %s a))))", name, arraySort(ex.heapSort(key)), in, newH.term, oldH.term))
				fr.st.heaps[key] = &HeapV{term: name, bases: mergeBases(newH.bases, oldH.bases)}
				ex.usesLambda = true
				continue
			}
			bind := func(name string, s Sort, t string) string {
				c := ex.q.fresh(name, s)
				ex.q.assume(eq(c, t))
				return c
			}
			nb := bind("fr_new", arraySort(ex.heapSort(key)), newH.term)
			ob := bind("fr_old", arraySort(ex.heapSort(key)), oldH.term)
			ex.q.assume(fmt.Sprintf("(forall ((a Addr)) (! (=> (not %s) (= (select %s a) (select %s a))) :pattern ((select %s a))))", in, nb, ob, nb))
			ex.usesQuant = true
		}
	}
	li.entrySt = fr.st.clone()
	li.entryVals = map[string]*Val{}
	for _, in := range b.Instrs {
		if phi, ok := in.(*ssa.Phi); ok {
			li.entryVals[phi.Comment] = fr.vals[phi]
		}
	}
	// 3. assume invariants
	for _, a := range li.autos {
		ex.q.assume(implies(fr.reach[b], a.cond(fr, fr.vals[a.phi])))
	}
	if ls != nil {
		for _, c := range ls.Invariants {
			if c.Thor && !ex.thorough {
				continue
			}
			cx := fr.loopCtx(li, nil, fr.st, false)
			ex.q.assume(implies(fr.reach[b], cx.evalBool(c.Expr)))
		}
	}
	if ls == nil || ls.Decreases == nil {
		ex.termUnproved = append(ex.termUnproved, fmt.Sprintf("%s loop %d", ex.P.keyOf[fr.fn], li.ordinal))
	}
}

func clauseName(c *Clause) string {
	if c.Label != "" {
		return c.Label
	}
	s := c.Src
	if len(s) > 60 {
		s = s[:60]
	}
	return s
}

// backEdge: obligations when control returns to the loop header.
func (fr *Frame) backEdge(from *ssa.BasicBlock, li *loopInfo, cond string) {
	ex := fr.ex
	var ls *LoopSpec
	if fr.spec != nil && li.ordinal > 0 {
		ls = fr.spec.Loops[li.ordinal]
	}
	ls = ls.forTier(ex.thorough)
	fr.lookBlock, fr.lookAtEnd = from, true
	if ls == nil && len(li.autos) == 0 {
		return
	}
	if ls == nil {
		ls = &LoopSpec{}
	}
	// values of the header phis along this edge
	next := map[string]*Val{}
	nextT := map[string]types.Type{}
	for _, in := range li.header.Instrs {
		phi, ok := in.(*ssa.Phi)
		if !ok {
			break
		}
		for i, p := range li.header.Preds {
			if p == from {
				next[phi.Comment] = fr.val(phi.Edges[i])
				nextT[phi.Comment] = phi.Type()
			}
		}
	}
	saveReach := fr.reach[fr.cur]
	fr.reach[fr.cur] = ex.q.def("back", SBool, cond)
	defer func() { fr.reach[fr.cur] = saveReach }()
	for _, a := range li.autos {
		for i, p := range li.header.Preds {
			if p == from {
				fr.oblige("inv-keep", fmt.Sprintf("loop%d:auto:%s", li.ordinal, a.name), a.cond(fr, fr.val(a.phi.Edges[i])), token.NoPos)
			}
		}
	}
	for i, f := range ls.Fills {
		cx := fr.loopCtx(li, next, fr.st, false)
		key, lam := fr.fillLambda(cx, f, li.preSt)
		fr.oblige("inv-keep", fmt.Sprintf("loop%d:fills%d:%s", li.ordinal, i, f.Src), eq(ex.heap(fr.st, key).term, lam), token.NoPos)
	}
	for _, c := range ls.Invariants {
		if c.Thor && !ex.thorough {
			continue
		}
		cx := fr.loopCtx(li, next, fr.st, true)
		o := fr.oblige("inv-keep", fmt.Sprintf("loop%d:%s", li.ordinal, clauseName(c)), cx.evalBool(c.Expr), token.NoPos)
		if o != nil {
			o.Label, o.Mode, o.Slow = c.Label, c.Mode, c.Slow
		}
	}
	for _, c := range ls.Steps {
		if c.Thor && !ex.thorough {
			continue
		}
		cx := fr.loopCtx(li, next, fr.st, true)
		cx.old = li.entrySt
		cx.oldVals = li.entryVals
		o := fr.oblige("step", fmt.Sprintf("loop%d:%s", li.ordinal, clauseName(c)), cx.evalBool(c.Expr), token.NoPos)
		if o != nil {
			o.Label, o.Mode, o.Slow = c.Label, c.Mode, c.Slow
		}
	}
	if ls.Decreases != nil {
		cx := fr.loopCtx(li, next, fr.st, true)
		nv := cx.evalInt(ls.Decreases.Expr)
		cx0 := fr.loopCtx(li, li.entryVals, li.entrySt, false)
		ov := cx0.evalInt(ls.Decreases.Expr)
		z := ex.idx(0)
		fr.oblige("dec", fmt.Sprintf("loop%d:%s", li.ordinal, clauseName(ls.Decreases)),
			and(ex.ar.cmp("<=", idxT, z, ov), ex.ar.cmp("<", idxT, nv, ov)), token.NoPos)
	}
}

func (fr *Frame) execBlock(b *ssa.BasicBlock) {
	for i, in := range b.Instrs {
		fr.execInstr(in)
		if cs := fr.asserts[b][i]; cs != nil {
			for _, c := range cs {
				if c.Thor && !fr.ex.thorough {
					continue
				}
				fr.lookBlock, fr.lookAtEnd, fr.lookIdx = b, true, i+1
				cx := fr.baseCtx(fr.st)
				cx.lookup = func(name string) (*Val, types.Type, bool) { return fr.frameLookup(name, cx.state(), nil) }
				cx.old, cx.entrySt, cx.goal = fr.entrySt, fr.entrySt, true
				if li := fr.inLoop[b]; li != nil {
					cx.old, cx.oldVals, cx.preSt = li.entrySt, li.entryVals, li.preSt
				}
				fr.noAssume = c.NoAssume
				o := fr.oblige("assert", clauseName(c), cx.evalBool(c.Expr), in.Pos())
				fr.noAssume = false
				if o != nil {
					o.Label, o.Mode, o.Slow = c.Label, c.Mode, c.Slow
				}
				fr.lookIdx = 0
			}
		}
	}
	// edges leaving the innermost loop: exit clauses
	if li := fr.inLoop[b]; li != nil && fr.spec != nil && li.ordinal > 0 {
		if ls := fr.spec.Loops[li.ordinal]; ls != nil && len(ls.Exits) > 0 {
			for _, s := range b.Succs {
				if li.body[s] {
					continue
				}
				saveReach := fr.reach[b]
				fr.reach[b] = fr.ex.q.def("exit", SBool, fr.edgeCond(b, s))
				fr.lookBlock, fr.lookAtEnd = b, true
				for _, c := range ls.Exits {
					if c.Thor && !fr.ex.thorough {
						continue
					}
					if c.HeadOnly && b != li.header {
						continue
					}
					cur := map[string]*Val{}
					for _, in := range li.header.Instrs {
						if phi, ok := in.(*ssa.Phi); ok {
							if v, has := fr.vals[phi]; has {
								cur[phi.Comment] = v
							}
						}
					}
					cx := fr.loopCtx(li, nil, fr.st, true)
					cx.old = li.entrySt
					cx.oldVals = li.entryVals
					o := fr.oblige("exit", fmt.Sprintf("loop%d:%s", li.ordinal, clauseName(c)), cx.evalBool(c.Expr), token.NoPos)
					if o != nil {
						o.Label, o.Mode, o.Slow = c.Label, c.Mode, c.Slow
					}
				}
				fr.reach[b] = saveReach
			}
		}
	}
	// back edges out of this block
	for _, s := range b.Succs {
		if fr.backEdges[[2]*ssa.BasicBlock{b, s}] {
			fr.backEdge(b, fr.loops[s], fr.edgeCond(b, s))
		}
	}
}

// ---------- automatic invariant candidates (Houdini, DESIGN §2.4) ----------

type autoInv struct {
	name string
	phi  *ssa.Phi
	cond func(fr *Frame, v *Val) string
}

func (fr *Frame) definedOutside(li *loopInfo, v ssa.Value) bool {
	switch x := v.(type) {
	case *ssa.Const, *ssa.Parameter, *ssa.Global, *ssa.FreeVar:
		return true
	case ssa.Instruction:
		return !li.body[x.Block()]
	}
	return false
}

func (fr *Frame) autoCandidates(li *loopInfo) []*autoInv {
	ex := fr.ex
	var out []*autoInv
	add := func(a *autoInv) {
		full := fmt.Sprintf("%s/loop%d:%s", fr.prefix, li.ordinal, a.name)
		if fr.depth == 0 {
			ex.autoSeen = append(ex.autoSeen, fmt.Sprintf("loop%d:auto:%s", li.ordinal, a.name))
		}
		if ex.autoOff[fmt.Sprintf("loop%d:auto:%s", li.ordinal, a.name)] && fr.depth == 0 {
			return
		}
		_ = full
		out = append(out, a)
	}
	if fr.depth > 0 {
		return nil // inlined callees have no loops
	}
	for _, in := range li.header.Instrs {
		phi, ok := in.(*ssa.Phi)
		if !ok {
			break
		}
		it := intTOf(phi.Type())
		if it == nil {
			continue
		}
		name := phi.Comment
		if name == "" {
			name = phi.Name()
		}
		// T1: phi >= init  (init = value on the entry edge, defined outside the loop)
		var init ssa.Value
		for i, p := range li.header.Preds {
			if !li.body[p] {
				if init != nil && init != phi.Edges[i] {
					init = nil
					break
				}
				init = phi.Edges[i]
			}
		}
		if init != nil && fr.definedOutside(li, init) {
			iv := init
			t := *it
			out0 := &autoInv{name: name + ">=init", phi: phi, cond: func(fr *Frame, v *Val) string {
				return fr.ex.ar.cmp(">=", t, v.T, fr.val(iv).T)
			}}
			add(out0)
		}
		// T2: phi <= bound for loops guarded by phi < bound / phi <= bound / phi != bound
		for b := range li.body {
			iff, ok := b.Instrs[len(b.Instrs)-1].(*ssa.If)
			if !ok {
				continue
			}
			// one successor leaves the loop
			if li.body[b.Succs[0]] == li.body[b.Succs[1]] {
				continue
			}
			bo, ok := iff.Cond.(*ssa.BinOp)
			if !ok {
				continue
			}
			var bound ssa.Value
			switch {
			case bo.X == ssa.Value(phi) && fr.definedOutside(li, bo.Y):
				bound = bo.Y
			default:
				// range loops: t2 = phi + 1; t2 < len
				if inc, ok := bo.X.(*ssa.BinOp); ok && inc.X == ssa.Value(phi) && fr.definedOutside(li, bo.Y) {
					if c, ok := inc.Y.(*ssa.Const); ok && c.Int64() == 1 && (bo.Op == token.LSS) {
						// phi + 1 <= bound at the header once the loop has iterated; phi < bound
						bv := bo.Y
						t := *it
						add(&autoInv{name: name + "<bound", phi: phi, cond: func(fr *Frame, v *Val) string {
							return fr.ex.ar.cmp("<", t, v.T, fr.val(bv).T)
						}})
					}
				}
				continue
			}
			if bo.Op != token.LSS && bo.Op != token.LEQ && bo.Op != token.NEQ {
				continue
			}
			bv := bound
			t := *it
			op := "<="
			add(&autoInv{name: name + "<=bound", phi: phi, cond: func(fr *Frame, v *Val) string {
				return fr.ex.ar.cmp(op, t, v.T, fr.val(bv).T)
			}})
		}
	}
	return out
}

// fillLambda: the heap "pre-loop heap with S[lo:hi] set to v" as a z3 array
// lambda, for the values of the loop variables visible in cx.
func (fr *Frame) fillLambda(cx *Ctx, f *FillSpec, pre *State) (key, lam string) {
	ex := fr.ex
	sl := cx.eval(f.Slice)
	st, ok := sl.T.Underlying().(*types.Slice)
	if !ok {
		cx.fail("fills: %s is not a slice", f.Slice)
	}
	el := ex.ls.of(st.Elem())
	if el.Kind != LScalar {
		cx.fail("fills: element type of %s is not scalar", f.Slice)
	}
	key = ex.pKey(leafClass(el))
	lo, hi := cx.evalInt(f.Lo), cx.evalInt(f.Hi)
	v := cx.typed(cx.eval(f.Val), st.Elem())
	ar := ex.ar
	base := ex.q.def("fb", SAddr, sl.V.C[0].T)
	l := ex.q.def("flo", ar.idxSort(), ar.add(idxT, sl.V.C[1].T, lo))
	h := ex.q.def("fhi", ar.idxSort(), ar.add(idxT, sl.V.C[1].T, hi))
	in := and("((_ is elem) a)", eq("(ebase a)", base), ar.cmp("<=", idxT, l, "(eidx a)"), ar.cmp("<", idxT, "(eidx a)", h))
	lam = fmt.Sprintf("(lambda ((a Addr)) (ite %s %s (select %s a)))", in, v.V.T, ex.heap(pre, key).term)
	return
}

// forTier drops thorough-only heap summaries in the quick tier.
func (ls *LoopSpec) forTier(thorough bool) *LoopSpec {
	if ls == nil || thorough {
		return ls
	}
	c := *ls
	c.Fills = nil
	for _, f := range ls.Fills {
		if !f.Thor {
			c.Fills = append(c.Fills, f)
		}
	}
	return &c
}

// placeAsserts maps every "assert after <statement>" clause to the last SSA
// instruction generated for that statement.
func (fr *Frame) placeAsserts() {
	fr.asserts = map[*ssa.BasicBlock]map[int][]*Clause{}
	if fr.spec == nil || len(fr.spec.Asserts) == 0 || fr.depth > 0 {
		return
	}
	syn := fr.fn.Syntax()
	if syn == nil {
		return
	}
	for _, pa := range fr.spec.Asserts {
		var found []ast.Stmt
		ast.Inspect(syn, func(n ast.Node) bool {
			if st, ok := n.(ast.Stmt); ok {
				if _, isBlock := n.(*ast.BlockStmt); !isBlock {
					// "x := ..." anchors on any statement that starts this way
					txt := fr.ex.P.nodeText(st)
					if txt == pa.Stmt || (strings.HasSuffix(pa.Stmt, "...") && strings.HasPrefix(txt, strings.TrimSuffix(pa.Stmt, "..."))) {
						found = append(found, st)
					}
				}
			}
			return true
		})
		pick := 0
		if pa.Nth > 0 {
			if pa.Nth > len(found) {
				panic(fmt.Errorf("contract: assert after %q@%d: statement found only %d times in %s", pa.Stmt, pa.Nth, len(found), fr.fn.Name()))
			}
			pick = pa.Nth - 1
		} else if len(found) != 1 {
			panic(fmt.Errorf("contract: assert after %q: statement found %d times in %s", pa.Stmt, len(found), fr.fn.Name()))
		}
		lo, hi := found[pick].Pos(), found[pick].End()
		var bb *ssa.BasicBlock
		bi := -1
		var bp token.Pos
		for _, b := range fr.fn.Blocks {
			for i, in := range b.Instrs {
				p := in.Pos()
				if p.IsValid() && p >= lo && p < hi && p >= bp {
					bb, bi, bp = b, i, p
				}
			}
		}
		if bb == nil {
			panic(fmt.Errorf("contract: assert after %q: no instruction for the statement", pa.Stmt))
		}
		// extend to the end of the run of instructions belonging to the statement (stores have no position)
		for bi+1 < len(bb.Instrs) {
			nx := bb.Instrs[bi+1]
			if _, isStore := nx.(*ssa.Store); isStore && !nx.Pos().IsValid() {
				bi++
				continue
			}
			if p := nx.Pos(); p.IsValid() && p >= lo && p < hi {
				bi++
				continue
			}
			break
		}
		if fr.asserts[bb] == nil {
			fr.asserts[bb] = map[int][]*Clause{}
		}
		fr.asserts[bb][bi] = append(fr.asserts[bb][bi], pa.Clause)
	}
}

// isFloat64: float64 (or an untyped float constant); float32 stays uninterpreted.
func isFloat64(t types.Type) bool {
	b, ok := t.Underlying().(*types.Basic)
	return ok && (b.Kind() == types.Float64 || b.Kind() == types.UntypedFloat)
}

// leadsOnlyToReturn: from b, control reaches a return through a straight line of blocks.
func leadsOnlyToReturn(b *ssa.BasicBlock) bool {
	for n := 0; n < 8 && b != nil; n++ {
		if len(b.Instrs) > 0 {
			if _, isRet := b.Instrs[len(b.Instrs)-1].(*ssa.Return); isRet {
				return true
			}
		}
		if len(b.Succs) != 1 {
			return false
		}
		b = b.Succs[0]
	}
	return false
}
