package main

import (
	"go/token"
	"go/types"

	"golang.org/x/tools/go/ssa"
)

// Heap families (DESIGN §2.3 "Memory", revised): every leaf field (T,f) of a
// named struct whose address never escapes has its own family "H:T.f";
// everything else (slice/array elements, lone cells, escaping fields,
// globals) lives in the per-class shared families "P:<class>".

var pClasses = []string{"P:bv8", "P:bv16", "P:bv32", "P:bv64", "P:Bool", "P:Addr", "P:Int", "P:F64"}

func (P *Prog) cleanField(n *types.Named, idx int) bool {
	if n == nil {
		return false
	}
	return !P.dirty[fieldKey(n, idx)]
}

// leafFamilies calls add for every heap family touched by a value of layout
// l stored at a location whose own family hint is hint ("" = shared).
func (P *Prog) leafFamilies(l *Layout, hint string, add func(string)) {
	switch l.Kind {
	case LScalar:
		if hint != "" {
			add(hint)
		} else {
			add("P:" + leafClass(l))
		}
	case LSlice, LString:
		if hint != "" {
			add(hint)
		} else {
			add("P:Addr")
			add("P:bv64")
		}
	case LIface:
		if hint != "" {
			add(hint)
		} else {
			add("P:Int")
			add("P:Addr")
		}
	case LStruct:
		for i, f := range l.Fields {
			h := ""
			if l.Named != nil && P.cleanField(l.Named, i) && f.Kind != LStruct && f.Kind != LArray {
				h = "H:" + fieldKey(l.Named, i)
			}
			P.leafFamilies(f, h, add)
		}
	case LArray:
		P.leafFamilies(l.Elem, "", add)
	case LTuple:
		for _, f := range l.Fields {
			P.leafFamilies(f, "", add)
		}
	}
}

// addrHint: the family of the cell a pointer value designates when it is a
// direct FieldAddr of a clean leaf field, else "".
func (P *Prog) addrHint(addr ssa.Value) string {
	if fa, ok := addr.(*ssa.FieldAddr); ok {
		n := structNamed(fa.X.Type())
		if n != nil && P.cleanField(n, fa.Field) {
			st := n.Underlying().(*types.Struct)
			if isLeafType(st.Field(fa.Field).Type()) {
				return "H:" + fieldKey(n, fa.Field)
			}
		}
	}
	return ""
}

var modLayouts = &layouts{ar: Arith{false}, cache: map[types.Type]*Layout{}}

func (P *Prog) typeReachFamilies(t types.Type, seen map[types.Type]bool, add func(string)) {
	t = types.Unalias(t)
	if seen[t] {
		return
	}
	seen[t] = true
	switch u := t.Underlying().(type) {
	case *types.Pointer:
		P.leafFamilies(modLayouts.of(u.Elem()), "", add)
		P.typeReachFamilies(u.Elem(), seen, add)
	case *types.Slice:
		P.leafFamilies(modLayouts.of(u.Elem()), "", add)
		P.typeReachFamilies(u.Elem(), seen, add)
	case *types.Array:
		P.typeReachFamilies(u.Elem(), seen, add)
	case *types.Struct:
		for i := 0; i < u.NumFields(); i++ {
			P.typeReachFamilies(u.Field(i).Type(), seen, add)
		}
	case *types.Map:
		P.typeReachFamilies(u.Elem(), seen, add)
	}
}

// externalMods: effect assumed for a call into code that is not analysed
// (standard library, other dependencies): it may write every shared cell and
// every field reachable by type from its arguments.
func (P *Prog) externalMods(args []ssa.Value, add func(string)) {
	for _, c := range pClasses {
		add(c)
	}
	seen := map[types.Type]bool{}
	for _, a := range args {
		t := a.Type()
		if mi, ok := a.(*ssa.MakeInterface); ok {
			t = mi.X.Type()
		}
		P.typeReachFamilies(t, seen, add)
	}
}

func (P *Prog) isAnalysed(f *ssa.Function) bool {
	if f == nil || f.Blocks == nil {
		return false
	}
	_, ok := P.keyOf[f]
	return ok
}

// callTargets returns the analysed functions a call may reach and whether
// unanalysed code may also be reached.
func (P *Prog) callTargets(c *ssa.CallCommon) (targets []*ssa.Function, external bool) {
	if c.IsInvoke() && isLoggerIface(c.Value.Type()) {
		return nil, false
	}
	if callee := c.StaticCallee(); callee != nil && P.pureExternal(callee) {
		return nil, false
	}
	if c.IsInvoke() {
		iface, _ := c.Value.Type().Underlying().(*types.Interface)
		if iface == nil {
			return nil, true
		}
		ts := P.implementors(iface, c.Method)
		for _, t := range ts {
			if P.isAnalysed(t) {
				targets = append(targets, t)
			} else {
				external = true
			}
		}
		// implementations outside the analysed packages may exist for
		// interfaces declared outside lal (io.Reader, net.Conn, error ...)
		if nt, ok := types.Unalias(c.Value.Type()).(*types.Named); !ok || nt.Obj().Pkg() == nil || !inScopePkg(nt.Obj().Pkg().Path()) || len(ts) == 0 {
			external = true
		}
		return
	}
	switch v := c.Value.(type) {
	case *ssa.Builtin:
		return nil, false
	case *ssa.Function:
		if P.isAnalysed(v) {
			return []*ssa.Function{v}, false
		}
		return nil, true
	case *ssa.MakeClosure:
		if fn, ok := v.Fn.(*ssa.Function); ok && P.isAnalysed(fn) {
			return []*ssa.Function{fn}, false
		}
		return nil, true
	}
	sig, _ := c.Value.Type().Underlying().(*types.Signature)
	if sig == nil {
		return nil, true
	}
	for _, t := range P.addrTaken[sigKey(sig)] {
		targets = append(targets, t)
	}
	return targets, true
}

// instrMods: families written by one instruction, not counting callees.
func (P *Prog) instrMods(in ssa.Instruction, add func(string)) {
	switch x := in.(type) {
	case *ssa.Store:
		P.leafFamilies(modLayouts.of(x.Val.Type()), P.addrHint(x.Addr), add)
	case *ssa.Call:
		if b, ok := x.Call.Value.(*ssa.Builtin); ok {
			switch b.Name() {
			case "append", "copy":
				if sl, ok := x.Call.Args[0].Type().Underlying().(*types.Slice); ok {
					P.leafFamilies(modLayouts.of(sl.Elem()), "", add)
				}
			}
		}
	case *ssa.UnOp:
		if x.Op == token.ARROW {
			// channel receive: no heap effect modelled
		}
	}
}

func (P *Prog) computeMods() {
	type callInfo struct {
		targets []*ssa.Function
	}
	calls := map[*ssa.Function][]*ssa.Function{}
	for _, f := range P.inScope {
		m := map[string]bool{}
		P.mods[f] = m
		add := func(s string) { m[s] = true }
		for _, b := range f.Blocks {
			for _, in := range b.Instrs {
				P.instrMods(in, add)
				if c, ok := in.(ssa.CallInstruction); ok {
					if _, isGo := in.(*ssa.Go); isGo {
						continue // spawned goroutine: effects not attributed to the spawner (DESIGN §2.9)
					}
					ts, ext := P.callTargets(c.Common())
					if ext {
						args := c.Common().Args
						if c.Common().IsInvoke() {
							args = append([]ssa.Value{c.Common().Value}, args...)
						}
						P.externalMods(args, add)
					}
					calls[f] = append(calls[f], ts...)
				}
			}
		}
		// closures created here may run later via stored function values; their
		// effects are attributed at the dynamic call site through addrTaken.
	}
	for changed := true; changed; {
		changed = false
		for _, f := range P.inScope {
			m := P.mods[f]
			for _, t := range calls[f] {
				for k := range P.mods[t] {
					if !m[k] {
						m[k] = true
						changed = true
					}
				}
			}
		}
	}
}
