package main

import (
	"flag"
	"fmt"
	"os"
	"sort"
	"strings"
	"time"
)

func main() {
	if len(os.Args) < 2 {
		fmt.Fprintln(os.Stderr, "usage: govc func <key-substring>... | check <property> [--tier quick|thorough]")
		os.Exit(2)
	}
	switch os.Args[1] {
	case "func":
		cmdFunc(os.Args[2:])
	case "check":
		cmdCheck(os.Args[2:])
	default:
		fmt.Fprintln(os.Stderr, "unknown command")
		os.Exit(2)
	}
}

func envOr(k, d string) string {
	if v := os.Getenv(k); v != "" {
		return v
	}
	return d
}

func cmdFunc(args []string) {
	fs := flag.NewFlagSet("func", flag.ExitOnError)
	dump := fs.Bool("dump", false, "dump SMT prelude")
	thorough := fs.Bool("thorough", false, "thorough tier")
	ms := fs.Int("ms", 10000, "timeout per obligation")
	ssaDump := fs.Bool("ssa", false, "print SSA")
	model := fs.Bool("model", false, "print candidate inputs / replay for failing obligations")
	fs.Parse(args)
	t0 := time.Now()
	P, err := loadProg(envOr("VERIF_REPO", "/repo"), envOr("VERIF_CONTRACTS", "/verif/contracts"))
	if err != nil {
		fmt.Fprintln(os.Stderr, err)
		os.Exit(2)
	}
	P.computeMods()
	fmt.Printf("loaded in %.1fs; %d functions in scope, %d contracts\n", time.Since(t0).Seconds(), len(P.inScope), len(P.specs.Funcs))
	var keys []string
	for k := range P.funcs {
		for _, pat := range fs.Args() {
			if strings.HasSuffix(k, pat) || k == pat {
				keys = append(keys, k)
			}
		}
	}
	sort.Strings(keys)
	solver := newSolver("/tmp/govc-q", 0, *ms, 16)
	solver.lastResort = *thorough
	for _, k := range keys {
		fn := P.funcs[k]
		if *ssaDump {
			fn.WriteTo(os.Stdout)
		}
		t1 := time.Now()
		res := P.verifyFunc(fn, *thorough)
		fmt.Printf("== %s: %d obligations (vcgen %.2fs) unsupported=%q contractErr=%q\n", k, len(res.Obls), time.Since(t1).Seconds(), res.Unsupported, res.ContractErr)
		if *dump {
			fmt.Println(smtHeader(res.Ex.ar.intMode, nil))
			for _, l := range res.Ex.q.lines {
				fmt.Println(l)
			}
			for _, o := range res.Obls {
				fmt.Printf(";OBL %s pos=%d\n;  reach=%s\n;  cond=%s\n", o.Name, o.Pos, o.Reach, o.Cond)
			}
		}
		vs := P.solveFunc(solver, res, *thorough, nil)
		for _, v := range vs {
			ok := v.Status == "unsat"
			if v.Obl.Cover {
				ok = v.Status == "sat"
			}
			mark := "ok  "
			if !ok {
				mark = "FAIL"
			}
			fmt.Printf("  %s %-8s %-7s %5.2fs %s  [%s] %s\n", mark, v.Status, v.Solver, v.Seconds, v.Obl.Name, v.Obl.SrcPos, v.File)
			if !ok && *model && !v.Obl.Cover {
				if rr := tryReplay(P, res.Ex, v.Obl, v, "/tmp/govc-q", 0); rr != nil {
					fmt.Printf("       %s\n", rr.Note)
					for k, val := range rr.Inputs {
						fmt.Printf("       %s = %s\n", k, truncate(val, 300))
					}
				}
			}
		}
	}
}
