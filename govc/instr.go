package main

import (
	"fmt"
	"go/token"
	"go/types"
	"math/big"
	"strings"

	"golang.org/x/tools/go/ssa"
)

func (fr *Frame) set(v ssa.Value, val *Val) { fr.vals[v] = val }

func intTOf(t types.Type) *IntT {
	if b, ok := t.Underlying().(*types.Basic); ok {
		return basicIntT(b)
	}
	return nil
}

// toIdx converts an integer value of Go type t to the index sort (int64),
// preserving "out of range" as a negative or huge value.
func (fr *Frame) toIdx(v *Val, t types.Type) string {
	it := intTOf(t)
	if it == nil {
		panic(unsupported("non-integer index"))
	}
	ar := fr.ex.ar
	if !it.Signed && it.Bits == 64 {
		if ar.intMode {
			return v.T // exact value; comparisons against len still correct
		}
		return v.T // reinterpret: values >= 2^63 become negative and fail the bounds check
	}
	return ar.conv(*it, idxT, v.T)
}

// safeNonNil: pointer-producing instructions whose result is never nil.
func safeNonNil(v ssa.Value) bool {
	switch v.(type) {
	case *ssa.Alloc, *ssa.FieldAddr, *ssa.IndexAddr, *ssa.Global, *ssa.MakeMap, *ssa.MakeChan, *ssa.MakeClosure, *ssa.Function:
		return true
	}
	return false
}

func (fr *Frame) nilCheck(v ssa.Value, pos token.Pos, what string) {
	if safeNonNil(v) {
		return
	}
	if fr.nonNilParam(v) {
		return
	}
	fr.oblige("nil", fr.locText(pos, what+" "+v.Name()), not(eq(fr.val(v).T, "nil")), pos)
}

// nonNilParam: receiver / pointer parameters are assumed non-nil at entry
// (and checked at every call site) unless the function itself compares them
// with nil.
func (fr *Frame) nonNilParam(v ssa.Value) bool {
	p, ok := v.(*ssa.Parameter)
	if !ok {
		return false
	}
	return implicitNonNil(p)
}

func implicitNonNil(p *ssa.Parameter) bool {
	switch p.Type().Underlying().(type) {
	case *types.Pointer:
	default:
		return false
	}
	deref := false
	for _, r := range *p.Referrers() {
		switch u := r.(type) {
		case *ssa.FieldAddr:
			deref = deref || u.X == ssa.Value(p)
		case *ssa.UnOp:
			deref = deref || (u.Op == token.MUL && u.X == ssa.Value(p))
		case *ssa.Store:
			deref = deref || u.Addr == ssa.Value(p)
		case *ssa.IndexAddr:
			deref = deref || u.X == ssa.Value(p)
		}
	}
	if !deref {
		return false
	}
	for _, r := range *p.Referrers() {
		if b, ok := r.(*ssa.BinOp); ok && (b.Op == token.EQL || b.Op == token.NEQ) {
			if c, ok := b.X.(*ssa.Const); ok && c.IsNil() {
				return false
			}
			if c, ok := b.Y.(*ssa.Const); ok && c.IsNil() {
				return false
			}
		}
	}
	return true
}

func (fr *Frame) execInstr(in ssa.Instruction) {
	ex := fr.ex
	ar := ex.ar
	switch x := in.(type) {
	case *ssa.DebugRef:
		if id, ok := x.Expr.(interface{ String() string }); ok {
			_ = id
		}
		if obj := x.Object(); obj != nil {
			if _, isVar := obj.(*types.Var); isVar {
				fr.env[obj.Name()] = envEnt{x.X, x.IsAddr}
			}
		}
	case *ssa.Phi:
		// handled at block entry
	case *ssa.Alloc:
		a := ex.alloc(fr.st, x.Comment)
		fr.set(x, sv(a))
	case *ssa.FieldAddr:
		fr.nilCheck(x.X, x.Pos(), "field of")
		fr.set(x, sv(fmt.Sprintf("(fld %s %d)", fr.val(x.X).T, x.Field)))
	case *ssa.Field:
		fr.set(x, fr.val(x.X).C[x.Field])
	case *ssa.IndexAddr:
		i := fr.toIdx(fr.val(x.Index), x.Index.Type())
		switch t := x.X.Type().Underlying().(type) {
		case *types.Slice:
			s := fr.val(x.X)
			fr.oblige("index", fr.locText(x.Pos(), "index "+x.X.Name()), and(ar.cmp("<=", idxT, ex.idx(0), i), ar.cmp("<", idxT, i, s.C[2].T)), x.Pos())
			fr.set(x, sv(ex.q.def("ea", SAddr, ex.elemAddr(s, i))))
		case *types.Pointer:
			arr := t.Elem().Underlying().(*types.Array)
			fr.nilCheck(x.X, x.Pos(), "index of")
			fr.oblige("index", fr.locText(x.Pos(), "index "+x.X.Name()), and(ar.cmp("<=", idxT, ex.idx(0), i), ar.cmp("<", idxT, i, ex.idx(arr.Len()))), x.Pos())
			fr.set(x, sv(ex.q.def("ea", SAddr, "(elem "+fr.val(x.X).T+" "+i+")")))
		default:
			panic(unsupported("IndexAddr on " + x.X.Type().String()))
		}
	case *ssa.Index:
		i := fr.toIdx(fr.val(x.Index), x.Index.Type())
		switch t := x.X.Type().Underlying().(type) {
		case *types.Array:
			fr.oblige("index", fr.locText(x.Pos(), "index "+x.X.Name()), and(ar.cmp("<=", idxT, ex.idx(0), i), ar.cmp("<", idxT, i, ex.idx(t.Len()))), x.Pos())
			av := fr.val(x.X)
			l := ex.ls.of(t.Elem())
			r := av.C[len(av.C)-1]
			for k := len(av.C) - 2; k >= 0; k-- {
				r = ex.iteVal(l, eq(i, ex.idx(int64(k))), av.C[k], r)
			}
			fr.set(x, r)
		case *types.Basic: // string
			s := fr.val(x.X)
			fr.oblige("index", fr.locText(x.Pos(), "index "+x.X.Name()), and(ar.cmp("<=", idxT, ex.idx(0), i), ar.cmp("<", idxT, i, s.C[2].T)), x.Pos())
			fr.set(x, sv(ex.loadLeaf(fr.st, ex.s8Key(), ex.elemAddr(s, i), true)))
		default:
			panic(unsupported("Index on " + x.X.Type().String()))
		}
	case *ssa.Store:
		fr.nilCheck(x.Addr, x.Pos(), "store to")
		fr.fieldStoreHook(x)
		ex.store(fr.st, fr.val(x.Addr).T, ex.ls.of(x.Val.Type()), ex.P.addrHint(x.Addr), fr.val(x.Val))
	case *ssa.UnOp:
		fr.unop(x)
	case *ssa.BinOp:
		fr.set(x, fr.binop(x.Op, x.X.Type(), x.Y.Type(), fr.val(x.X), fr.val(x.Y), x.Pos(), x))
	case *ssa.Convert:
		fr.convert(x)
	case *ssa.ChangeType:
		fr.set(x, fr.val(x.X))
	case *ssa.ChangeInterface:
		fr.set(x, fr.val(x.X))
	case *ssa.MakeInterface:
		l := ex.ls.of(x.X.Type())
		tag := fmt.Sprint(ex.P.getTypeID(x.X.Type()))
		if l.Kind == LScalar && l.Sort == SAddr {
			fr.set(x, &Val{C: []*Val{sv(tag), fr.val(x.X)}})
		} else {
			a := ex.alloc(fr.st, "box")
			if l.Kind != LUnsupported && !(l.Kind == LArray && l.N > maxArrayVal) {
				ex.store(fr.st, a, l, "", fr.val(x.X))
			}
			fr.set(x, &Val{C: []*Val{sv(tag), sv(a)}})
		}
	case *ssa.TypeAssert:
		fr.typeAssert(x)
	case *ssa.Extract:
		fr.set(x, fr.val(x.Tuple).C[x.Index])
	case *ssa.Slice:
		fr.sliceOp(x)
	case *ssa.MakeSlice:
		ln := fr.toIdx(fr.val(x.Len), x.Len.Type())
		cp := fr.toIdx(fr.val(x.Cap), x.Cap.Type())
		fr.oblige("make", fr.locText(x.Pos(), "make"), and(ar.cmp("<=", idxT, ex.idx(0), ln), ar.cmp("<=", idxT, ln, cp), ar.cmp("<=", idxT, cp, ar.lit(idxT, pow2(maxLenBits+1)))), x.Pos())
		a := ex.alloc(fr.st, "make")
		fr.set(x, &Val{C: []*Val{sv(a), sv(ex.idx(0)), sv(ln), sv(cp)}})
	case *ssa.MakeMap:
		fr.set(x, sv(ex.alloc(fr.st, "mk")))
		// a map that is only built and queried inside this function (a set/table
		// literal) is modelled exactly: its entries are tracked by the executor
		local := true
		for _, r := range *x.Referrers() {
			switch u := r.(type) {
			case *ssa.MapUpdate:
				local = local && u.Map == ssa.Value(x) && u.Block() == x.Block()
			case *ssa.Lookup:
				local = local && u.X == ssa.Value(x)
			case *ssa.DebugRef:
			default:
				local = false
			}
		}
		if local {
			if fr.localMaps == nil {
				fr.localMaps = map[ssa.Value]*localMap{}
			}
			fr.localMaps[x] = &localMap{}
		}
	case *ssa.MakeChan:
		fr.set(x, sv(ex.alloc(fr.st, "mk")))
	case *ssa.MakeClosure:
		fr.set(x, sv(ex.alloc(fr.st, "closure")))
	case *ssa.Lookup:
		fr.lookup(x)
	case *ssa.MapUpdate:
		fr.oblige("nil", fr.locText(x.Pos(), "map update "+x.Map.Name()), not(eq(fr.val(x.Map).T, "nil")), x.Pos())
		if lm := fr.localMaps[x.Map]; lm != nil {
			lm.keys = append(lm.keys, fr.val(x.Key))
			lm.vals = append(lm.vals, fr.val(x.Value))
		}
	case *ssa.Range:
		fr.set(x, sv("nil"))
	case *ssa.Next:
		l := ex.ls.of(x.Type())
		v := ex.freshVal(l, "next")
		ex.assumeAllocated(l, v, fr.st.ctr)
		fr.set(x, v)
	case *ssa.Select:
		l := ex.ls.of(x.Type())
		v := ex.freshVal(l, "select")
		ex.assumeAllocated(l, v, fr.st.ctr)
		fr.set(x, v)
	case *ssa.Send:
	case *ssa.Go:
		// spawned goroutine: not followed (DESIGN §2.9); arguments are evaluated
	case *ssa.Defer:
		if fr.inLoop[fr.cur] != nil {
			panic(unsupported("defer inside loop"))
		}
		fr.defers = append(fr.defers, x)
		// record whether this defer was reached
		fr.vals[deferKey{x}] = sv(fr.reach[fr.cur])
	case *ssa.RunDefers:
		for i := len(fr.defers) - 1; i >= 0; i-- {
			d := fr.defers[i]
			fr.call(d, &d.Call, nil, d.Pos())
		}
	case *ssa.Call:
		fr.call(x, &x.Call, x, x.Pos())
	case *ssa.Panic:
		fr.oblige("panic", fr.locText(x.Pos(), "panic"), "false", x.Pos())
	case *ssa.Return:
		rl := ex.ls.of(fr.fn.Signature.Results())
		rv := &Val{C: []*Val{}}
		for _, r := range x.Results {
			rv.C = append(rv.C, fr.val(r))
		}
		_ = rl
		if fr.depth == 0 && fr.spec != nil {
			fr.returnSite(x, rv)
		}
		fr.rets = append(fr.rets, retRec{fr.reach[fr.cur], rv, fr.st.clone()})
	case *ssa.Jump, *ssa.If:
	default:
		panic(unsupported(fmt.Sprintf("instruction %T", in)))
	}
}

type deferKey struct{ d *ssa.Defer }

func (deferKey) Name() string                  { return "defer" }
func (deferKey) String() string                { return "defer" }
func (deferKey) Type() types.Type              { return nil }
func (deferKey) Parent() *ssa.Function         { return nil }
func (deferKey) Referrers() *[]ssa.Instruction { return nil }
func (deferKey) Pos() token.Pos                { return token.NoPos }

func (fr *Frame) unop(x *ssa.UnOp) {
	ex := fr.ex
	switch x.Op {
	case token.MUL:
		fr.nilCheck(x.X, x.Pos(), "load from")
		l := ex.ls.of(x.Type())
		v := ex.load(fr.st, fr.val(x.X).T, l, ex.P.addrHint(x.X), true)
		fr.fieldLoadHook(x, v)
		if g, isG := x.X.(*ssa.Global); isG && ex.P.constGlobals[g] != nil && l.Kind == LScalar {
			// write-once package variable with a constant initialiser
			ex.q.assume(eq(v.T, ex.constVal(ex.P.constGlobals[g]).T))
		}
		if g, isG := x.X.(*ssa.Global); isG && ex.P.nonNilGlobals[g] {
			if c := nilTermOf(l, v); c != "" {
				ex.q.assume(not(c))
			}
		}
		if _, isG := x.X.(*ssa.Global); isG && isLoggerIface(x.Type()) {
			ex.q.assume(not(eq(v.C[0].T, "0")))
			ex.trusted["package-level nazalog.Logger variables (Log) are non-nil"] = true
		}
		fr.set(x, v)
	case token.NOT:
		fr.set(x, sv(not(fr.val(x.X).T)))
	case token.SUB:
		it := intTOf(x.Type())
		if it == nil {
			if isFloat64(x.Type()) {
				fr.set(x, sv(ex.q.def("f", SF64, "(fp.neg "+fr.val(x.X).T+")")))
				return
			}
			fr.set(x, ex.freshVal(ex.ls.of(x.Type()), "fneg"))
			return
		}
		fr.set(x, sv(ex.q.def("t", ex.ar.sort(*it), ex.ar.neg(*it, fr.val(x.X).T))))
	case token.XOR:
		it := intTOf(x.Type())
		fr.set(x, sv(ex.q.def("t", ex.ar.sort(*it), ex.ar.bvnot(*it, fr.val(x.X).T))))
	case token.ARROW:
		l := ex.ls.of(x.Type())
		v := ex.freshVal(l, "recv")
		ex.assumeAllocated(l, v, fr.st.ctr)
		fr.set(x, v)
	default:
		panic(unsupported("unop " + x.Op.String()))
	}
}

func (fr *Frame) binop(op token.Token, tx, ty types.Type, a, b *Val, pos token.Pos, x *ssa.BinOp) *Val {
	ex := fr.ex
	ar := ex.ar
	lx := ex.ls.of(tx)
	switch op {
	case token.EQL, token.NEQ:
		var c string
		switch lx.Kind {
		case LString:
			c = fr.ex.strEq(fr.st, a, b, x)
		case LSlice:
			// only comparison with nil is legal
			if isNilConst(x, true) {
				c = eq(b.C[0].T, "nil")
			} else {
				c = eq(a.C[0].T, "nil")
			}
		case LIface:
			ly := ex.ls.of(ty)
			if ly.Kind != LIface {
				panic(unsupported("mixed interface comparison"))
			}
			c = and(eq(a.C[0].T, b.C[0].T), eq(a.C[1].T, b.C[1].T))
			if isNilConst(x, false) || isNilConst(x, true) {
				c = eq(a.C[0].T, b.C[0].T)
			}
		default:
			if lx.Sort == SF64 && isFloat64(tx) {
				c = f64Bin("==", a.T, b.T)
			} else if lx.Sort == SF64 {
				c = ex.q.fresh("feq", SBool)
			} else {
				c = ex.eqVal(lx, a, b)
			}
		}
		c = ex.q.def("c", SBool, c)
		if op == token.NEQ {
			return sv(not(c))
		}
		return sv(c)
	}
	if lx.Kind == LString {
		switch op {
		case token.ADD:
			// concatenation: fresh string of the summed length
			v := ex.freshVal(lx, "concat")
			ex.q.assume(eq(v.C[2].T, ar.add(idxT, a.C[2].T, b.C[2].T)))
			ex.q.assume("(< (rid " + v.C[0].T + ") " + fr.st.ctr + ")")
			return v
		case token.LSS, token.LEQ, token.GTR, token.GEQ:
			return sv(ex.q.fresh("strcmp", SBool))
		}
	}
	if lx.Sort == SF64 {
		if isFloat64(tx) {
			if t := f64Bin(op.String(), a.T, b.T); t != "" {
				switch op {
				case token.LSS, token.LEQ, token.GTR, token.GEQ:
					return sv(ex.q.def("c", SBool, t))
				}
				return sv(ex.q.def("f", SF64, t))
			}
		}
		switch op {
		case token.LSS, token.LEQ, token.GTR, token.GEQ:
			return sv(ex.q.fresh("fcmp", SBool))
		}
		return sv(ex.q.fresh("fop", SF64))
	}
	if lx.Sort == SBool {
		switch op {
		case token.AND, token.LAND:
			return sv(ex.q.def("c", SBool, and(a.T, b.T)))
		case token.OR, token.LOR:
			return sv(ex.q.def("c", SBool, or(a.T, b.T)))
		}
	}
	it := lx.Int
	if it == nil {
		panic(unsupported("binop " + op.String() + " on " + tx.String()))
	}
	s := ar.sort(*it)
	var r string
	switch op {
	case token.ADD:
		r = ar.add(*it, a.T, b.T)
	case token.SUB:
		r = ar.sub(*it, a.T, b.T)
	case token.MUL:
		r = ar.mul(*it, a.T, b.T)
	case token.QUO, token.REM:
		fr.oblige("div", fr.locText(pos, "division"), not(eq(b.T, ar.litI(*it, 0))), pos)
		if op == token.QUO {
			r = ar.div(*it, a.T, b.T)
		} else {
			r = ar.rem(*it, a.T, b.T)
		}
	case token.AND:
		r = ar.bitop(ex.q, "&", *it, a.T, b.T)
	case token.OR:
		r = ar.bitop(ex.q, "|", *it, a.T, b.T)
	case token.XOR:
		r = ar.bitop(ex.q, "^", *it, a.T, b.T)
	case token.AND_NOT:
		r = ar.bitop(ex.q, "&^", *it, a.T, b.T)
	case token.SHL, token.SHR:
		ct := intTOf(ty)
		if ct == nil {
			panic(unsupported("shift count type"))
		}
		if ct.Signed {
			fr.oblige("shift", fr.locText(pos, "shift"), ar.cmp(">=", *ct, b.T, ar.litI(*ct, 0)), pos)
		}
		cntLit, _ := ar.parseLit(*ct, b.T)
		tooBig := ar.cmp(">=", IntT{ct.Bits, false}, b.T, ar.lit(IntT{ct.Bits, false}, big.NewInt(int64(it.Bits))))
		if ct.Bits < 8 {
			tooBig = "false"
		}
		cnt := b.T
		if !ar.intMode {
			// resize count to operand width (value irrelevant when tooBig)
			cnt = ar.conv(IntT{ct.Bits, false}, IntT{it.Bits, false}, b.T)
		}
		if op == token.SHL {
			r = ar.shl(ex.q, *it, a.T, cnt, cntLit, tooBig)
		} else {
			r = ar.shr(ex.q, *it, a.T, cnt, cntLit, tooBig)
		}
	case token.LSS:
		return sv(ex.q.def("c", SBool, ar.cmp("<", *it, a.T, b.T)))
	case token.LEQ:
		return sv(ex.q.def("c", SBool, ar.cmp("<=", *it, a.T, b.T)))
	case token.GTR:
		return sv(ex.q.def("c", SBool, ar.cmp(">", *it, a.T, b.T)))
	case token.GEQ:
		return sv(ex.q.def("c", SBool, ar.cmp(">=", *it, a.T, b.T)))
	default:
		panic(unsupported("binop " + op.String()))
	}
	return sv(ex.q.def("t", s, r))
}

func isNilConst(x *ssa.BinOp, left bool) bool {
	if x == nil {
		return false
	}
	v := x.Y
	if left {
		v = x.X
	}
	c, ok := v.(*ssa.Const)
	return ok && c.IsNil()
}

// strEq: equality of two string values. Comparison with a literal is
// expanded pointwise; otherwise an uninterpreted relation with the
// consequences "equal strings have equal length" and reflexivity.
func (ex *Exec) strEq(st *State, a, b *Val, x *ssa.BinOp) string {
	lit := func(v ssa.Value) (string, bool) {
		if c, ok := v.(*ssa.Const); ok && c.Value != nil {
			return constantString(c), true
		}
		return "", false
	}
	if x != nil {
		if s, ok := lit(x.Y); ok {
			return ex.strEqLit(st, a, s)
		}
		if s, ok := lit(x.X); ok {
			return ex.strEqLit(st, b, s)
		}
	}
	return ex.strEqSym(a, b)
}

func (ex *Exec) strEqSym(a, b *Val) string {
	ex.needStrEq()
	same := and(eq(a.C[0].T, b.C[0].T), eq(a.C[1].T, b.C[1].T), eq(a.C[2].T, b.C[2].T))
	r := ex.q.def("seq", SBool, fmt.Sprintf("(streq %s %s %s %s %s %s)", a.C[0].T, a.C[1].T, a.C[2].T, b.C[0].T, b.C[1].T, b.C[2].T))
	ex.q.assume(implies(same, r))
	ex.q.assume(eq(r, fmt.Sprintf("(streq %s %s %s %s %s %s)", b.C[0].T, b.C[1].T, b.C[2].T, a.C[0].T, a.C[1].T, a.C[2].T))) // symmetric
	ex.q.assume(implies(r, eq(a.C[2].T, b.C[2].T)))
	ex.q.assume(implies(and(eq(a.C[2].T, ex.idx(0)), eq(b.C[2].T, ex.idx(0))), r))
	return r
}

func (ex *Exec) needStrEq() {
	s := string(ex.ar.idxSort())
	key := "(declare-fun streq (Addr " + s + " " + s + " Addr " + s + " " + s + ") Bool)"
	for _, l := range ex.q.lines {
		if l == key {
			return
		}
	}
	ex.q.lines = append(ex.q.lines, key)
}

func (ex *Exec) strEqLit(st *State, a *Val, s string) string {
	cs := []string{eq(a.C[2].T, ex.idx(int64(len(s))))}
	if len(s) > 64 {
		return and(cs[0], ex.q.fresh("longstreq", SBool))
	}
	for i := 0; i < len(s); i++ {
		b := ex.loadLeaf(st, ex.s8Key(), ex.elemAddr(a, ex.idx(int64(i))), false)
		cs = append(cs, eq(b, ex.ar.litI(IntT{8, false}, int64(s[i]))))
	}
	return and(cs...)
}

func (fr *Frame) convert(x *ssa.Convert) {
	ex := fr.ex
	from, to := x.X.Type(), x.Type()
	lf, lt := ex.ls.of(from), ex.ls.of(to)
	v := fr.val(x.X)
	switch {
	case lf.Int != nil && lt.Int != nil:
		fr.set(x, sv(ex.q.def("cv", lt.Sort, ex.ar.conv(*lf.Int, *lt.Int, v.T))))
	case lf.Kind == LString && lt.Kind == LSlice, lf.Kind == LSlice && lt.Kind == LString:
		// fresh copy with the same length; contents equal (pointwise fact on demand is not modelled: havoc)
		a := ex.alloc(fr.st, "conv")
		ln := v.C[2].T
		if lt.Kind == LSlice {
			nv := &Val{C: []*Val{sv(a), sv(ex.idx(0)), sv(ln), sv(ln)}}
			ex.copyCells(fr.st, nv, v, ln, ex.pKey("bv8"), ex.s8Key())
			fr.set(x, nv)
		} else {
			nv := &Val{C: []*Val{sv(a), sv(ex.idx(0)), sv(ln)}}
			ex.copyCellsToS8(fr.st, nv, v, ln)
			fr.set(x, nv)
		}
	case lt.Kind == LString && lf.Int != nil:
		nv := ex.freshVal(lt, "runestr")
		fr.set(x, nv)
	case lf.Sort == SF64 || lt.Sort == SF64:
		switch {
		case lf.Int != nil && isFloat64(to):
			if t, ok := ex.ar.f64FromInt(*lf.Int, v.T); ok {
				fr.set(x, sv(ex.q.def("f", SF64, t)))
				return
			}
		case lt.Int != nil && isFloat64(from):
			if t, ok := ex.ar.f64ToInt(*lt.Int, v.T); ok {
				fr.set(x, sv(ex.q.def("cv", lt.Sort, t)))
				return
			}
		case isFloat64(from) && isFloat64(to):
			fr.set(x, v)
			return
		}
		fr.set(x, ex.freshVal(lt, "fconv"))
	case lf.Sort == SAddr && lt.Sort == SAddr:
		fr.set(x, v)
	case lf.Sort == SAddr && lt.Int != nil, lf.Int != nil && lt.Sort == SAddr:
		fr.set(x, ex.freshVal(lt, "ptrconv"))
	case lf.Kind == LSlice && lt.Kind == LSlice:
		fr.set(x, v)
	default:
		panic(unsupported("convert " + from.String() + " -> " + to.String()))
	}
}

func (fr *Frame) typeAssert(x *ssa.TypeAssert) {
	ex := fr.ex
	v := fr.val(x.X)
	var ok string
	var res *Val
	if types.IsInterface(x.AssertedType) {
		okc := ex.q.fresh("assertok", SBool)
		ex.q.assume(implies(okc, not(eq(v.C[0].T, "0"))))
		// static knowledge: if the operand's static interface already has the methods, any non-nil value passes
		if si, isI := x.X.Type().Underlying().(*types.Interface); isI {
			ai := x.AssertedType.Underlying().(*types.Interface)
			if types.Implements(x.X.Type(), ai) || si.NumMethods() >= ai.NumMethods() && types.AssignableTo(x.X.Type(), x.AssertedType) {
				ex.q.assume(eq(okc, not(eq(v.C[0].T, "0"))))
			}
		}
		ok = okc
		res = v
	} else {
		l := ex.ls.of(x.AssertedType)
		ok = ex.q.def("isT", SBool, eq(v.C[0].T, fmt.Sprint(ex.P.getTypeID(x.AssertedType))))
		if l.Kind == LScalar && l.Sort == SAddr {
			res = sv(v.C[1].T)
		} else {
			res = ex.load(fr.st, v.C[1].T, l, "", true)
		}
	}
	if x.CommaOk {
		l := ex.ls.of(x.AssertedType)
		z := ex.ls.zero(l)
		fr.set(x, &Val{C: []*Val{ex.iteVal(l, ok, res, z), sv(ok)}})
		return
	}
	fr.oblige("assert", fr.locText(x.Pos(), "type assertion"), ok, x.Pos())
	fr.set(x, res)
}

func (fr *Frame) sliceOp(x *ssa.Slice) {
	ex := fr.ex
	ar := ex.ar
	z := ex.idx(0)
	var base, off, ln, cp string
	isStr := false
	switch t := x.X.Type().Underlying().(type) {
	case *types.Slice:
		v := fr.val(x.X)
		base, off, ln, cp = v.C[0].T, v.C[1].T, v.C[2].T, v.C[3].T
	case *types.Basic:
		v := fr.val(x.X)
		base, off, ln, cp = v.C[0].T, v.C[1].T, v.C[2].T, v.C[2].T
		isStr = true
	case *types.Pointer:
		arr := t.Elem().Underlying().(*types.Array)
		fr.nilCheck(x.X, x.Pos(), "slice of")
		base, off, ln, cp = fr.val(x.X).T, z, ex.idx(arr.Len()), ex.idx(arr.Len())
	default:
		panic(unsupported("slice of " + x.X.Type().String()))
	}
	lo, hi, mx := z, ln, cp
	if x.Low != nil {
		lo = fr.toIdx(fr.val(x.Low), x.Low.Type())
	}
	if x.High != nil {
		hi = fr.toIdx(fr.val(x.High), x.High.Type())
	}
	if x.Max != nil {
		mx = fr.toIdx(fr.val(x.Max), x.Max.Type())
	}
	cond := and(ar.cmp("<=", idxT, z, lo), ar.cmp("<=", idxT, lo, hi), ar.cmp("<=", idxT, hi, mx), ar.cmp("<=", idxT, mx, cp))
	fr.oblige("slice", fr.locText(x.Pos(), "slice "+x.X.Name()), cond, x.Pos())
	noff := ex.q.def("off", ar.idxSort(), ar.add(idxT, off, lo))
	nlen := ex.q.def("len", ar.idxSort(), ar.sub(idxT, hi, lo))
	if isStr {
		fr.set(x, &Val{C: []*Val{sv(base), sv(noff), sv(nlen)}})
		return
	}
	ncap := ex.q.def("cap", ar.idxSort(), ar.sub(idxT, mx, lo))
	fr.set(x, &Val{C: []*Val{sv(base), sv(noff), sv(nlen), sv(ncap)}})
}

func (fr *Frame) lookup(x *ssa.Lookup) {
	ex := fr.ex
	if mt, isMap := x.X.Type().Underlying().(*types.Map); isMap {
		if lm := fr.localMaps[x.X]; lm != nil {
			kl, vl := ex.ls.of(mt.Key()), ex.ls.of(mt.Elem())
			key := fr.val(x.Index)
			val := ex.ls.zero(vl)
			ok := "false"
			for i := range lm.keys {
				hit := ex.q.def("mhit", SBool, ex.eqVal(kl, key, lm.keys[i]))
				val = ex.iteVal(vl, hit, lm.vals[i], val) // later entries win
				ok = or(ok, hit)
			}
			if x.CommaOk {
				fr.set(x, &Val{C: []*Val{val, sv(ex.q.def("mok", SBool, ok))}})
			} else {
				fr.set(x, val)
			}
			return
		}
		l := ex.ls.of(x.Type())
		v := ex.freshVal(l, "mapval")
		ex.assumeAllocated(l, v, fr.st.ctr)
		if x.CommaOk {
			// (value, ok): value is the zero value when !ok
			vl := l.Fields[0]
			ok := v.C[1].T
			v = &Val{C: []*Val{ex.iteVal(vl, ok, v.C[0], ex.ls.zero(vl)), sv(ok)}}
			ex.q.assume(implies(eq(fr.val(x.X).T, "nil"), not(ok)))
		}
		fr.set(x, v)
		return
	}
	// string index
	s := fr.val(x.X)
	i := fr.toIdx(fr.val(x.Index), x.Index.Type())
	fr.oblige("index", fr.locText(x.Pos(), "index "+x.X.Name()), and(ex.ar.cmp("<=", idxT, ex.idx(0), i), ex.ar.cmp("<", idxT, i, s.C[2].T)), x.Pos())
	fr.set(x, sv(ex.loadLeaf(fr.st, ex.s8Key(), ex.elemAddr(s, i), true)))
}

// ---------- declared field facts and type invariants (DESIGN §2.2 "type T invariant") ----------

func typeKeyOf(n *types.Named) string {
	if n.Obj().Pkg() == nil {
		return n.Obj().Name()
	}
	return n.Obj().Pkg().Path() + "." + n.Obj().Name()
}

func nilTermOf(l *Layout, v *Val) string {
	switch l.Kind {
	case LScalar:
		if l.Sort == SAddr {
			return eq(v.T, "nil")
		}
	case LSlice, LString:
		return eq(v.C[0].T, "nil")
	case LIface:
		return eq(v.C[0].T, "0")
	}
	return ""
}

// fieldLoadHook: facts assumed when a field is read.
func (fr *Frame) fieldLoadHook(x *ssa.UnOp, v *Val) {
	fa, ok := x.X.(*ssa.FieldAddr)
	if !ok {
		return
	}
	n := structNamed(fa.X.Type())
	if n == nil {
		return
	}
	ex := fr.ex
	tk := typeKeyOf(n)
	st := n.Underlying().(*types.Struct)
	if ex.P.specs.NonNil[tk+"."+st.Field(fa.Field).Name()] {
		if c := nilTermOf(ex.ls.of(x.Type()), v); c != "" {
			ex.q.assume(not(c))
			ex.trusted["declared non-nil field "+shortKey(tk)+"."+st.Field(fa.Field).Name()+" (checked at every analysed store and allocation)"] = true
		}
	}
	invs := ex.P.specs.Types[tk]
	if len(invs) == 0 || fr.st.dirty[typeShort(n)] {
		return
	}
	base := fr.val(fa.X).T
	key := fmt.Sprintf("inv:%s:%s:%s:%p:%d", tk, base, fr.st.epoch(typeShort(n)), fr, fr.cur.Index)
	if ex.factDone[key] {
		return
	}
	ex.factDone[key] = true
	for _, ti := range invs {
		cx := fr.baseCtx(fr.st)
		if sp := ex.P.pkgByPath[ti.Pkg]; sp != nil {
			cx.pkg = sp.Pkg
		}
		cx.spec = nil
		cx.vals["self"] = sv(base)
		cx.types["self"] = types.NewPointer(n)
		ex.q.assume(implies(fr.reach[fr.cur], cx.evalBool(ti.Clause.Expr)))
	}
	ex.trusted["type invariant of "+shortKey(tk)+" assumed for objects read outside its own methods (proved at the exit of its methods and constructors; re-entrancy while broken not modelled)"] = true
}

// epoch: identifies the heap versions of a type's field families, so that an
// invariant is re-assumed after a havoc.
func (s *State) epoch(tshort string) string {
	e := ""
	for f, ev := range s.events {
		if strings.HasPrefix(f, "H:"+tshort+".") {
			e += ev + ","
		}
	}
	return e
}

// fieldStoreHook: obligations and bookkeeping when a field is written.
func (fr *Frame) fieldStoreHook(x *ssa.Store) {
	fa, ok := x.Addr.(*ssa.FieldAddr)
	if !ok {
		return
	}
	n := structNamed(fa.X.Type())
	if n == nil {
		return
	}
	ex := fr.ex
	tk := typeKeyOf(n)
	st := n.Underlying().(*types.Struct)
	if ex.P.specs.NonNil[tk+"."+st.Field(fa.Field).Name()] {
		if c := nilTermOf(ex.ls.of(x.Val.Type()), fr.val(x.Val)); c != "" {
			fr.oblige("objinv", "nonnil "+n.Obj().Name()+"."+st.Field(fa.Field).Name()+": "+fr.locText(x.Pos(), "store"), not(c), x.Pos())
		}
	}
	if len(ex.P.specs.Types[tk]) > 0 {
		if fr.st.dirty == nil {
			fr.st.dirty = map[string]bool{}
		}
		fr.st.dirty[typeShort(n)] = true
		// writes to invariant-carrying types are expected in their own methods / constructors only
		okSite := false
		switch b := fa.X.(type) {
		case *ssa.Alloc:
			okSite = true
		case *ssa.Parameter:
			okSite = len(fr.fn.Params) > 0 && fr.fn.Params[0] == b && fr.fn.Signature.Recv() != nil
		}
		if !okSite {
			ex.trusted["field of invariant-carrying type "+shortKey(tk)+" written outside its methods in "+shortKey(ex.P.keyOf[fr.fn])] = true
		}
	}
}

// returnSite: "returns" clauses, evaluated at one return statement. A clause
// that mentions a local not visible at this site is skipped here.
func (fr *Frame) returnSite(x *ssa.Return, rv *Val) {
	ex := fr.ex
	for _, c := range fr.spec.RetSites {
		if c.Thor && !ex.thorough {
			continue
		}
		expr := c.Expr
		retry := false
	again:
		func() {
			defer func() {
				if r := recover(); r != nil {
					if e, ok := r.(error); ok && strings.Contains(e.Error(), "unknown identifier") {
						// A ==> B whose B mentions a local that does not exist at this
						// return: the site must then not satisfy A at all.
						if b, isImp := expr.(*CBinary); isImp && b.Op == "==>" && !retry {
							expr = &CUnary{"!", b.X}
							retry = true
						} else {
							retry = false
						}
						return
					}
					panic(r)
				}
			}()
			wasRetry := retry
			retry = false
			_ = wasRetry
			fr.lookBlock, fr.lookAtEnd = x.Block(), true
			cx := fr.baseCtx(fr.st)
			cx.lookup = func(name string) (*Val, types.Type, bool) { return fr.frameLookup(name, cx.state(), nil) }
			cx.old = fr.entrySt
			cx.entrySt = fr.entrySt
			cx.goal = true
			if fr.fn.Signature.Results().Len() > 0 {
				cx.setResult(fr.fn, rv)
			}
			cond := cx.evalBool(expr)
			o := fr.oblige("returns", clauseName(c), cond, x.Pos())
			if o != nil {
				o.Label, o.Mode, o.Slow = c.Label, c.Mode, c.Slow
			}
			ex.retSiteHits[clauseName(c)]++
		}()
		if retry {
			goto again
		}
	}
}

type localMap struct {
	keys, vals []*Val
}
