package main

import (
	"sort"
	"fmt"
	"go/constant"
	"go/token"
	"go/types"
	"math/big"
	"os"
	"strings"

	"golang.org/x/tools/go/ssa"
)

func constantString(c *ssa.Const) string { return constant.StringVal(c.Value) }

const maxInlineDepth = 4
const maxInlineInstrs = 90

// externModel describes a library function that is not analysed.
type externModel struct {
	pure  bool                                                     // no heap effect at all
	mods  func(P *Prog, args []ssa.Value, add func(string))        // custom footprint
	apply func(fr *Frame, args []*Val, argv []ssa.Value, res *Val) // extra facts about the result
}

var externModels = map[string]*externModel{}

func init() {
	for _, n := range []string{
		"(*sync.Mutex).Lock", "(*sync.Mutex).Unlock", "(*sync.RWMutex).Lock", "(*sync.RWMutex).Unlock",
		"(*sync.RWMutex).RLock", "(*sync.RWMutex).RUnlock", "(*sync.WaitGroup).Add", "(*sync.WaitGroup).Done", "(*sync.WaitGroup).Wait",
		"(*sync.Once).Do",
		"errors.New", "fmt.Errorf", "fmt.Sprintf", "fmt.Sprint", "fmt.Sprintln", "time.Now", "time.Since", "(time.Time).UnixNano", "(time.Time).Unix",
		"(time.Time).UnixMilli", "(time.Time).Sub", "(time.Duration).Milliseconds", "(time.Duration).Seconds", "time.Sleep", "(time.Time).Format",
		"strings.Split", "strings.SplitN", "strings.HasPrefix", "strings.HasSuffix", "strings.Index", "strings.LastIndex", "strings.IndexByte",
		"strings.TrimSpace", "strings.TrimPrefix", "strings.TrimSuffix", "strings.Trim", "strings.TrimLeft", "strings.TrimRight", "strings.ToLower", "strings.ToUpper",
		"strings.Contains", "strings.Join", "strings.Replace", "strings.ReplaceAll", "strings.Fields", "strings.EqualFold", "strings.Count", "strings.Compare",
		"strconv.Atoi", "strconv.Itoa", "strconv.ParseInt", "strconv.ParseUint", "strconv.ParseFloat", "strconv.FormatInt", "strconv.Quote",
		"bytes.Equal", "bytes.Index", "bytes.IndexByte", "bytes.Compare", "bytes.HasPrefix", "bytes.Contains",
		"math.Float64frombits", "math.Float64bits", "math.Floor", "math.Ceil", "math.Round", "math.Abs", "math.Max", "math.Min",
		"encoding/hex.EncodeToString", "encoding/hex.DecodeString", "encoding/hex.Dump",
		"(*encoding/base64.Encoding).EncodeToString", "(*encoding/base64.Encoding).DecodeString",
		"crypto/md5.Sum", "crypto/rand.Read", "math/rand.Intn", "math/rand.Int31", "math/rand.Uint32", "math/rand.Int63", "math/rand.Int",
		"net/url.ParseQuery", "net/url.Parse", "(net/url.Values).Get", "path/filepath.Join", "path/filepath.Dir", "path/filepath.Base", "path.Join", "path.Base", "path.Ext",
		"os.Getpid", "sync/atomic.AddUint32", "sync/atomic.LoadUint32", "sync/atomic.AddInt32", "sync/atomic.LoadInt32",
		"sync/atomic.AddUint64", "sync/atomic.LoadUint64", "sync/atomic.AddInt64", "sync/atomic.LoadInt64",
		"(*sync/atomic.Uint32).Add", "(*sync/atomic.Uint32).Load", "(*sync/atomic.Int32).Add", "(*sync/atomic.Int32).Load", "(*sync/atomic.Bool).Load",
		"(*sync/atomic.Uint64).Add", "(*sync/atomic.Uint64).Load", "(*sync/atomic.Int64).Add", "(*sync/atomic.Int64).Load",
		"unicode/utf8.RuneCountInString", "unicode.IsSpace", "unicode.IsDigit",
	} {
		externModels[n] = &externModel{pure: true}
	}
	externModels[nazaPrefix+"pkg/nazaerrors.Wrap"] = &externModel{pure: true, apply: func(fr *Frame, args []*Val, argv []ssa.Value, res *Val) {
		// Wrap(err) is nil iff err is nil
		fr.ex.q.assume(eq(eq(res.C[0].T, "0"), eq(args[0].C[0].T, "0")))
	}}
	nonNilErr := func(fr *Frame, args []*Val, argv []ssa.Value, res *Val) {
		fr.ex.q.assume(not(eq(res.C[0].T, "0")))
	}
	// fmt.Sprintf with a constant format: the result is at least as long as the
	// format's literal text (verbs may expand to nothing)
	externModels["fmt.Sprintf"].apply = func(fr *Frame, args []*Val, argv []ssa.Value, res *Val) {
		if c := fr.ex.P.constOf(argv[0]); c != nil && c.Value != nil {
			f := constantString(c)
			n := 0
			for i := 0; i < len(f); i++ {
				if f[i] != '%' {
					n++
					continue
				}
				i++
				if i < len(f) && f[i] == '%' {
					n++
					continue
				}
				for i < len(f) && strings.IndexByte("+-# 0123456789.[]*", f[i]) >= 0 {
					i++
				}
			}
			fr.ex.q.assume(fr.ex.ar.cmp(">=", idxT, res.C[2].T, fr.ex.idx(int64(n))))
		}
	}
	externModels["crypto/md5.New"] = &externModel{pure: true, apply: nonNilErr}
	externModels[nazaPrefix+"pkg/nazamd5.Md5"] = &externModel{pure: true}
	externModels["errors.New"].apply = nonNilErr
	externModels["fmt.Errorf"].apply = nonNilErr
	// atomics write through their pointer argument
	for n, m := range externModels {
		if strings.HasPrefix(n, "sync/atomic.Add") {
			m.pure = false
			m.mods = func(P *Prog, args []ssa.Value, add func(string)) {
				add("P:bv32")
				add("P:bv64")
			}
		}
	}
	lenLE := func(k int) func(fr *Frame, args []*Val, argv []ssa.Value, res *Val) {
		return func(fr *Frame, args []*Val, argv []ssa.Value, res *Val) {
			ar := fr.ex.ar
			fr.ex.q.assume(ar.cmp("<=", idxT, res.C[2].T, args[k].C[2].T))
		}
	}
	for _, n := range []string{"strings.TrimSpace", "strings.TrimPrefix", "strings.TrimSuffix", "strings.Trim", "strings.TrimLeft", "strings.TrimRight"} {
		externModels[n].apply = lenLE(0)
	}
	// TrimPrefix with a literal prefix: exactly s[len(prefix):] when s has the prefix, else s
	externModels["strings.TrimPrefix"].apply = func(fr *Frame, args []*Val, argv []ssa.Value, res *Val) {
		ex := fr.ex
		ex.q.assume(ex.ar.cmp("<=", idxT, res.C[2].T, args[0].C[2].T))
		c := ex.P.constOf(argv[1])
		if c == nil || c.Value == nil {
			return
		}
		lit := constantString(c)
		if len(lit) > 16 {
			return
		}
		n := ex.idx(int64(len(lit)))
		cs := []string{ex.ar.cmp(">=", idxT, args[0].C[2].T, n)}
		for i := 0; i < len(lit); i++ {
			b := ex.loadLeaf(fr.st, ex.s8Key(), ex.elemAddr(args[0], ex.idx(int64(i))), false)
			cs = append(cs, eq(b, ex.ar.litI(IntT{8, false}, int64(lit[i]))))
		}
		hp := and(cs...)
		ex.q.assume(eq(res.C[0].T, args[0].C[0].T))
		ex.q.assume(eq(res.C[1].T, ite(hp, ex.ar.add(idxT, args[0].C[1].T, n), args[0].C[1].T)))
		ex.q.assume(eq(res.C[2].T, ite(hp, ex.ar.sub(idxT, args[0].C[2].T, n), args[0].C[2].T)))
	}
	// case mapping keeps emptiness (not necessarily the byte length)
	caseMap := func(fr *Frame, args []*Val, argv []ssa.Value, res *Val) {
		fr.ex.q.assume(eq(eq(res.C[2].T, fr.ex.idx(0)), eq(args[0].C[2].T, fr.ex.idx(0))))
	}
	externModels["strings.ToLower"].apply = caseMap
	externModels["strings.ToUpper"].apply = caseMap
	idxRange := func(fr *Frame, args []*Val, argv []ssa.Value, res *Val) {
		ar := fr.ex.ar
		// -1 <= r <= len(s) - len(sep)   (r >= 0 implies r + len(sep) <= len(s))
		seplen := fr.ex.idx(1)
		if len(args[1].C) == 3 {
			seplen = args[1].C[2].T
		}
		fr.ex.q.assume(and(ar.cmp("<=", idxT, fr.ex.idx(-1), res.T), ar.cmp("<=", idxT, res.T, args[0].C[2].T),
			implies(ar.cmp(">=", idxT, res.T, fr.ex.idx(0)), ar.cmp("<=", idxT, ar.add(idxT, res.T, seplen), args[0].C[2].T))))
	}
	for _, n := range []string{"strings.Index", "strings.LastIndex", "strings.IndexByte", "bytes.Index", "bytes.IndexByte"} {
		externModels[n].apply = idxRange
	}
	splitLen := func(fr *Frame, args []*Val, argv []ssa.Value, res *Val) {
		ar := fr.ex.ar
		// len(result) >= 1 when sep is a non-empty literal
		if c, ok := argv[1].(*ssa.Const); ok && c.Value != nil && len(constantString(c)) > 0 {
			fr.ex.q.assume(ar.cmp(">=", idxT, res.C[2].T, fr.ex.idx(1)))
			fr.ex.q.assume(not(eq(res.C[0].T, "nil")))
		}
	}
	externModels["strings.Split"].apply = splitLen
	externModels["strings.SplitN"].apply = splitLen
	externModels["strings.HasPrefix"].apply = func(fr *Frame, args []*Val, argv []ssa.Value, res *Val) {
		fr.ex.q.assume(implies(res.T, fr.ex.ar.cmp(">=", idxT, args[0].C[2].T, args[1].C[2].T)))
		if c, ok := argv[1].(*ssa.Const); ok && c.Value != nil {
			s := constantString(c)
			if len(s) <= 16 {
				// exact for literal prefixes
				cs := []string{fr.ex.ar.cmp(">=", idxT, args[0].C[2].T, fr.ex.idx(int64(len(s))))}
				for i := 0; i < len(s); i++ {
					b := fr.ex.loadLeaf(fr.st, fr.ex.s8Key(), fr.ex.elemAddr(args[0], fr.ex.idx(int64(i))), false)
					cs = append(cs, eq(b, fr.ex.ar.litI(IntT{8, false}, int64(s[i]))))
				}
				fr.ex.q.assume(eq(res.T, and(cs...)))
			}
		}
	}
	externModels["strings.HasSuffix"].apply = func(fr *Frame, args []*Val, argv []ssa.Value, res *Val) {
		fr.ex.q.assume(implies(res.T, fr.ex.ar.cmp(">=", idxT, args[0].C[2].T, args[1].C[2].T)))
	}
	// io.ReadFull / io.ReadAtLeast: write only into the buffer
	bufOnly := func(P *Prog, args []ssa.Value, add func(string)) { add("P:bv8") }
	externModels["io.ReadFull"] = &externModel{mods: bufOnly}
	externModels["io.ReadAtLeast"] = &externModel{mods: bufOnly}
	externModels["encoding/hex.Decode"] = &externModel{mods: bufOnly}
}

// constOf: v as a compile-time constant, looking through loads of write-once
// constant globals.
func (P *Prog) constOf(v ssa.Value) *ssa.Const {
	switch x := v.(type) {
	case *ssa.Const:
		return x
	case *ssa.UnOp:
		if g, ok := x.X.(*ssa.Global); ok && x.Op == token.MUL {
			return P.constGlobals[g]
		}
	}
	return nil
}

// pureExternal: callee whose call has no modelled heap effect.
func (P *Prog) pureExternal(f *ssa.Function) bool {
	if f == nil {
		return false
	}
	if m, ok := externModels[f.String()]; ok && m.pure {
		return true
	}
	if f.Pkg != nil && (f.Pkg.Pkg.Path() == nazaPrefix+"pkg/nazalog" || f.Pkg.Pkg.Path() == nazaPrefix+"pkg/nazaerrors") {
		return true
	}
	if f.Pkg == nil {
		// method wrappers etc.
		if strings.Contains(f.String(), nazaPrefix+"pkg/nazalog") {
			return true
		}
	}
	return false
}

func isLoggerIface(t types.Type) bool {
	nt, ok := types.Unalias(t).(*types.Named)
	return ok && nt.Obj().Pkg() != nil && nt.Obj().Pkg().Path() == nazaPrefix+"pkg/nazalog" && nt.Obj().Name() == "Logger"
}

func (P *Prog) specFor(f *ssa.Function) *FuncSpec {
	if f == nil {
		return nil
	}
	k, ok := P.keyOf[f]
	if !ok {
		return nil
	}
	return P.specs.Funcs[k]
}

func hasLoops(f *ssa.Function) bool {
	for _, b := range f.Blocks {
		for _, s := range b.Succs {
			if s.Dominates(b) {
				return true
			}
		}
	}
	return false
}

func instrCount(f *ssa.Function) int {
	n := 0
	for _, b := range f.Blocks {
		for _, in := range b.Instrs {
			if _, ok := in.(*ssa.DebugRef); !ok {
				n++
			}
		}
	}
	return n
}

func (fr *Frame) onStack(f *ssa.Function) bool {
	for p := fr; p != nil; p = p.parent {
		if p.fn == f {
			return true
		}
	}
	return false
}

func (fr *Frame) shouldInline(callee *ssa.Function, sp *FuncSpec) bool {
	if !fr.ex.P.isAnalysed(callee) || fr.onStack(callee) || fr.depth >= maxInlineDepth {
		return false
	}
	top := fr
	for top.parent != nil {
		top = top.parent
	}
	if top.spec != nil && top.spec.Modular && sp != nil && !sp.Inline {
		return false
	}
	if sp != nil && (sp.Inline || sp.Trusted) {
		return sp.Inline
	}
	if sp != nil && sp.Opaque {
		return false
	}
	// a callee under contract is still executed in place when it is small and
	// loop-free (its body is the strongest contract); the caller can insist on
	// contract-only reasoning with `modular` (ghost lemmas do)
	if fr.ex.P.pureExternal(callee) {
		return false
	}
	if hasLoops(callee) || instrCount(callee) > maxInlineInstrs {
		return false
	}
	// do not inline functions that contain defers/go/select
	for _, b := range callee.Blocks {
		for _, in := range b.Instrs {
			switch in.(type) {
			case *ssa.Go, *ssa.Select, *ssa.Defer:
				return false
			}
		}
	}
	return true
}

// alwaysInlined: the callee-side mirror of shouldInline for contract-less
// functions.
func (P *Prog) alwaysInlined(callee *ssa.Function) bool {
	if !P.isAnalysed(callee) || P.specFor(callee) != nil {
		return false
	}
	if hasLoops(callee) || instrCount(callee) > maxInlineInstrs {
		return false
	}
	for _, b := range callee.Blocks {
		for _, in := range b.Instrs {
			switch x := in.(type) {
			case *ssa.Go, *ssa.Select, *ssa.Defer:
				return false
			case ssa.CallInstruction:
				if x.Common().StaticCallee() == callee {
					return false
				}
			}
		}
	}
	return true
}

func shortFn(f *ssa.Function) string {
	s := f.RelString(nil)
	if i := strings.LastIndex(s, "/"); i >= 0 {
		s = s[i+1:]
	}
	return s
}

func (fr *Frame) call(in ssa.Instruction, c *ssa.CallCommon, res ssa.Value, pos token.Pos) {
	ex := fr.ex
	var rl *Layout
	if res != nil {
		rl = ex.ls.of(res.Type())
	}
	var callee *ssa.Function
	setRes := func(v *Val) {
		if res != nil {
			fr.set(res, v)
			if callee != nil && rl != nil {
				fr.recordCallResult(callee, rl, v)
			}
		}
	}
	if b, ok := c.Value.(*ssa.Builtin); ok {
		setRes(fr.builtin(b, c, res, pos))
		return
	}
	args := make([]*Val, len(c.Args))
	for i, a := range c.Args {
		args[i] = fr.val(a)
	}
	site := fr.locText(pos, "call")
	callee = c.StaticCallee()
	if callee != nil {
		for _, n := range ghostCallNames(callee) {
			fr.st.ghost["called:"+n] = "true"
		}
		fr.recordCallArgs(callee, c.Args, args)
	}
	if callee == nil && c.IsInvoke() {
		// devirtualisation: the interface value was made from a known concrete
		// type in this function (or an inlined caller passed it down)
		if conc, recv := fr.concreteOf(c.Value); conc != nil {
			if sel := ex.P.prog.MethodSets.MethodSet(conc).Lookup(c.Method.Pkg(), c.Method.Name()); sel != nil {
				if fn := ex.P.prog.MethodValue(sel); fn != nil && ex.P.isAnalysed(fn) && len(fn.Params) == len(c.Args)+1 {
					nc := &ssa.CallCommon{Value: fn, Args: append([]ssa.Value{recv}, c.Args...)}
					fr.call(in, nc, res, pos)
					return
				}
			}
		}
	}
	if callee != nil {
		// explicit process-terminating log calls
		if ex.P.pureExternal(callee) {
			n := callee.Name()
			if strings.HasPrefix(n, "Panic") || strings.HasPrefix(n, "Fatal") {
				fr.oblige("panic", site, "false", pos)
			}
			if rl != nil {
				v := ex.freshVal(rl, "r_"+callee.Name())
				ex.assumeAllocated(rl, v, fr.st.ctr)
				if m := externModels[callee.String()]; m != nil && m.apply != nil {
					m.apply(fr, args, c.Args, v)
				}
				setRes(v)
			}
			ex.trusted["extern: "+callee.String()+" (no panic, no effect on modelled state)"] = true
			return
		}
		sp := ex.P.specFor(callee)
		// implicit non-nil preconditions of the callee's pointer parameters
		if ex.P.isAnalysed(callee) {
			for i, p := range callee.Params {
				if i < len(c.Args) && implicitNonNil(p) && !safeNonNil(c.Args[i]) && !fr.nonNilParam(c.Args[i]) {
					fr.oblige("nil", site+":arg "+p.Name(), not(eq(args[i].T, "nil")), pos)
				}
			}
		}
		if sp != nil && len(sp.Assumes) > 0 {
			for _, c := range sp.Assumes {
				cx := &Ctx{fr: fr, ex: ex, st: fr.st, pkg: callee.Pkg.Pkg, vals: map[string]*Val{}, types: map[string]types.Type{}, facts: true, spec: sp}
				for i, p := range callee.Params {
					cx.vals[p.Name()] = args[i]
					cx.types[p.Name()] = p.Type()
				}
				ex.q.assume(implies(fr.reach[fr.cur], cx.evalBool(c.Expr)))
				ex.trusted["assumed, not checked: "+shortFn(callee)+": "+c.Src] = true
			}
		}
		if fr.shouldInline(callee, sp) {
			if sp != nil {
				// the callee's preconditions are obligations of this call site even
				// though its body is executed in place
				for _, c := range sp.Requires {
					cx := &Ctx{fr: fr, ex: ex, st: fr.st, pkg: callee.Pkg.Pkg, vals: map[string]*Val{}, types: map[string]types.Type{}, facts: true, spec: sp, goal: true}
					for i, p := range callee.Params {
						cx.vals[p.Name()] = args[i]
						cx.types[p.Name()] = p.Type()
					}
					o := fr.oblige("pre", site+":"+shortFn(callee)+":"+clauseName(c), cx.evalBool(c.Expr), pos)
					if o != nil {
						o.Label, o.Mode, o.Slow = c.Label, c.Mode, c.Slow
					}
				}
			}
			sub := &Frame{ex: ex, fn: callee, spec: nil, vals: map[ssa.Value]*Val{}, depth: fr.depth + 1, parent: fr,
				prefix: fr.prefix + site + "/" + shortFn(callee) + ":", callArgs: c.Args}
			for i, p := range callee.Params {
				sub.vals[p] = args[i]
			}
			ex.inlined[ex.P.keyOf[callee]] = true
			ret, out, retReach := sub.run(fr.reach[fr.cur], fr.st)
			fr.st = out
			// control continues only on the paths where the callee returned
			ex.q.assume(implies(fr.reach[fr.cur], retReach))
			if rl != nil {
				if len(ret.C) == 1 && rl.Kind != LTuple {
					setRes(ret.C[0])
				} else {
					setRes(ret)
				}
			}
			return
		}
		if sp != nil && ex.P.isAnalysed(callee) {
			fr.callByContract(callee, sp, args, c.Args, res, rl, site, pos)
			return
		}
	} else {
		// dynamic call: interface method or function value
		if c.IsInvoke() && isLoggerIface(c.Value.Type()) {
			// nazalog.Logger: logging has no effect on modelled state; Panic*/Fatal* terminate
			fr.oblige("nil", site+":invoke", not(eq(fr.val(c.Value).C[0].T, "0")), pos)
			n := c.Method.Name()
			if strings.HasPrefix(n, "Panic") || strings.HasPrefix(n, "Fatal") {
				fr.oblige("panic", site, "false", pos)
			}
			ex.trusted["extern: nazalog.Logger methods (no panic except Panic*/Fatal*, no effect on modelled state; Assert logs only)"] = true
			if rl != nil {
				v := ex.freshVal(rl, "r_log")
				ex.assumeAllocated(rl, v, fr.st.ctr)
				setRes(v)
			}
			return
		}
		if c.IsInvoke() {
			fr.oblige("nil", site+":invoke", not(eq(fr.val(c.Value).C[0].T, "0")), pos)
		} else if !safeNonNil(c.Value) && !fr.nonNilFuncParam(c.Value) {
			fr.oblige("nil", site+":funcvalue", not(eq(fr.val(c.Value).T, "nil")), pos)
		}
	}
	// opaque call: havoc footprint, fresh result
	mods := map[string]bool{}
	ex.callMods(c, func(s string) { mods[s] = true })
	if len(mods) > 0 {
		fr.preserveLocals(func() { ex.havocFamilies(fr.st, mods) })
	}
	if callee != nil && !ex.P.isAnalysed(callee) {
		ex.trusted["extern: "+callee.String()+" (no panic; writes only shared cells and fields reachable from its arguments)"] = true
	}
	if rl != nil {
		name := "r_call"
		if callee != nil {
			name = "r_" + callee.Name()
		}
		v := ex.freshVal(rl, name)
		ex.assumeAllocated(rl, v, fr.st.ctr)
		if c.IsInvoke() && (c.Method.Name() == "Write" || c.Method.Name() == "Read") && len(c.Args) == 1 && len(v.C) == 2 {
			if _, isSl := c.Args[0].Type().Underlying().(*types.Slice); isSl && intTOf(c.Method.Type().(*types.Signature).Results().At(0).Type()) != nil {
				// io.Reader / io.Writer contract: 0 <= n <= len(p)
				ex.q.assume(and(ex.ar.cmp("<=", idxT, ex.idx(0), v.C[0].T), ex.ar.cmp("<=", idxT, v.C[0].T, args[0].C[2].T)))
				ex.trusted["io.Reader/io.Writer implementations return 0 <= n <= len(p)"] = true
			}
		}
		if callee != nil {
			if m := externModels[callee.String()]; m != nil && m.apply != nil {
				m.apply(fr, args, c.Args, v)
			}
		}
		setRes(v)
	}
}

// concreteOf: if interface value v is (through ChangeInterface / parameter
// passing of inlined frames) a MakeInterface of a pointer-like concrete value,
// the concrete type and the SSA value holding the receiver.
func (fr *Frame) concreteOf(v ssa.Value) (types.Type, ssa.Value) {
	for i := 0; i < 8; i++ {
		switch x := v.(type) {
		case *ssa.MakeInterface:
			if l := fr.ex.ls.of(x.X.Type()); l.Kind == LScalar && l.Sort == SAddr {
				if _, known := fr.vals[x.X]; known || isConstLike(x.X) {
					return x.X.Type(), x.X
				}
				if _, isParam := x.X.(*ssa.Parameter); isParam {
					return x.X.Type(), x.X
				}
			}
			return nil, nil
		case *ssa.ChangeInterface:
			v = x.X
		case *ssa.Parameter:
			// inlined frame: follow the argument in the caller
			if fr.parent == nil || fr.callArgs == nil {
				return nil, nil
			}
			for k, p := range fr.fn.Params {
				if p == x && k < len(fr.callArgs) {
					t, rv := fr.parent.concreteOf(fr.callArgs[k])
					if t == nil {
						return nil, nil
					}
					// make the receiver value visible in this frame
					if _, has := fr.vals[rv]; !has {
						fr.vals[rv] = fr.parent.val(rv)
					}
					return t, rv
				}
			}
			return nil, nil
		default:
			return nil, nil
		}
	}
	return nil, nil
}

func (fr *Frame) nonNilFuncParam(v ssa.Value) bool {
	p, ok := v.(*ssa.Parameter)
	if !ok {
		return false
	}
	_, isSig := p.Type().Underlying().(*types.Signature)
	return isSig
}

func (fr *Frame) callByContract(callee *ssa.Function, sp *FuncSpec, args []*Val, argv []ssa.Value, res ssa.Value, rl *Layout, site string, pos token.Pos) {
	ex := fr.ex
	if (sp.Mode == "int") != ex.ar.intMode {
		// contract clauses are translated wholly in the caller's mode (DESIGN §2.3)
	}
	mk := func(st, old *State, result *Val) *Ctx {
		cx := &Ctx{fr: fr, ex: ex, st: st, old: old, pkg: callee.Pkg.Pkg, vals: map[string]*Val{}, types: map[string]types.Type{}, facts: true, spec: sp}
		for i, p := range callee.Params {
			cx.vals[p.Name()] = args[i]
			cx.types[p.Name()] = p.Type()
		}
		if result != nil {
			cx.setResult(callee, result)
		}
		return cx
	}
	pre := fr.st.clone()
	for _, c := range sp.Requires {
		cx := mk(fr.st, nil, nil)
		cx.goal = true
		o := fr.oblige("pre", site+":"+shortFn(callee)+":"+clauseName(c), cx.evalBool(c.Expr), pos)
		if o != nil {
			o.Label = c.Label
		}
	}
	for _, ti := range ex.P.typeInvsFor(callee) {
		cx := mk(fr.st, nil, nil)
		cx.goal = true
		cx.vals["self"] = args[0]
		cx.types["self"] = callee.Params[0].Type()
		o := fr.oblige("pre", site+":"+shortFn(callee)+":objinv:"+clauseName(ti.Clause), cx.evalBool(ti.Clause.Expr), pos)
		if o != nil {
			o.Label = ti.Clause.Label
		}
	}
	// recursion: termination measure and stack bound (DESIGN §2.4)
	if sp.Decr != nil {
		top := fr
		for top.parent != nil {
			top = top.parent
		}
		cm := mk(fr.st, nil, nil).evalInt(sp.Decr.Expr)
		if top.spec != nil && top.spec.Decr != nil && ex.P.sameCycle(top.fn, callee) {
			tcx := top.baseCtx(top.entrySt)
			for _, p := range top.fn.Params {
				tcx.vals[p.Name()] = top.vals[p]
				tcx.types[p.Name()] = p.Type()
			}
			tm := tcx.evalInt(top.spec.Decr.Expr)
			fr.oblige("term", site+":"+shortFn(callee)+":measure decreases", and(ex.ar.cmp("<=", idxT, ex.idx(0), cm), ex.ar.cmp("<", idxT, cm, tm)), pos)
		} else if sp.StackBound > 0 {
			fr.oblige("stack", site+":"+shortFn(callee)+":recursion depth bounded by "+fmt.Sprint(sp.StackBound), ex.ar.cmp("<=", idxT, cm, ex.idx(int64(sp.StackBound))), pos)
		}
	}
	mods := map[string]bool{}
	ex.callMods(&ssa.CallCommon{Value: callee, Args: argv}, func(s string) { mods[s] = true })
	if len(mods) > 0 {
		fr.preserveLocals(func() { ex.havocFamilies(fr.st, mods) })
	}
	var rv *Val
	if rl != nil {
		rv = ex.freshVal(rl, "r_"+callee.Name())
		ex.assumeAllocated(rl, rv, fr.st.ctr)
		fr.set(res, rv)
		fr.recordCallResult(callee, rl, rv)
	}
	var resTuple *Val
	if rv != nil {
		if rl.Kind == LTuple {
			resTuple = rv
		} else {
			resTuple = &Val{C: []*Val{rv}}
		}
	}
	for _, c := range sp.Ensures {
		if c.Thor && !ex.thorough {
			continue
		}
		cx := mk(fr.st, pre, resTuple)
		ex.q.assume(implies(fr.reach[fr.cur], cx.evalBool(c.Expr)))
	}
	for _, ti := range ex.P.typeInvsFor(callee) {
		cx := mk(fr.st, pre, resTuple)
		cx.vals["self"] = args[0]
		cx.types["self"] = callee.Params[0].Type()
		ex.q.assume(implies(fr.reach[fr.cur], cx.evalBool(ti.Clause.Expr)))
	}
	if sp.Trusted {
		ex.trusted["trusted contract: "+ex.P.keyOf[callee]] = true
	}
}

// typeInvsFor: object invariants that apply to a method (receiver *T or T
// where T has declared invariants).
func (P *Prog) typeInvsFor(f *ssa.Function) []*TypeInv {
	if f.Signature.Recv() == nil || f.Pkg == nil {
		return nil
	}
	n := structNamed(f.Signature.Recv().Type())
	if n == nil || n.Obj().Pkg() == nil {
		return nil
	}
	return P.specs.Types[n.Obj().Pkg().Path()+"."+n.Obj().Name()]
}

func (fr *Frame) builtin(b *ssa.Builtin, c *ssa.CallCommon, res ssa.Value, pos token.Pos) *Val {
	ex := fr.ex
	ar := ex.ar
	switch b.Name() {
	case "len", "cap":
		v := fr.val(c.Args[0])
		switch t := c.Args[0].Type().Underlying().(type) {
		case *types.Slice:
			if b.Name() == "len" {
				return v.C[2]
			}
			return v.C[3]
		case *types.Basic:
			return v.C[2]
		case *types.Pointer:
			return sv(ex.idx(t.Elem().Underlying().(*types.Array).Len()))
		case *types.Array:
			return sv(ex.idx(t.Len()))
		case *types.Map, *types.Chan:
			r := ex.q.fresh("maplen", ar.idxSort())
			ex.q.assume(and(ar.cmp("<=", idxT, ex.idx(0), r), ar.cmp("<=", idxT, r, ar.lit(idxT, pow2(maxLenBits)))))
			ex.q.assume(implies(eq(v.T, "nil"), eq(r, ex.idx(0))))
			return sv(r)
		}
	case "copy":
		dst, src := fr.val(c.Args[0]), fr.val(c.Args[1])
		n := ex.q.def("ncopy", ar.idxSort(), ite(ar.cmp("<", idxT, dst.C[2].T, src.C[2].T), dst.C[2].T, src.C[2].T))
		el := ex.ls.of(c.Args[0].Type().Underlying().(*types.Slice).Elem())
		if _, isStr := c.Args[1].Type().Underlying().(*types.Basic); isStr {
			ex.copyCells(fr.st, dst, src, n, ex.pKey("bv8"), ex.s8Key())
		} else {
			ex.copyElems(fr.st, el, dst, src, n)
		}
		return sv(n)
	case "append":
		return fr.appendOp(c, pos)
	case "delete":
		return nil
	case "print", "println":
		return nil
	case "min", "max":
		it := intTOf(c.Args[0].Type())
		if it == nil {
			return ex.freshVal(ex.ls.of(res.Type()), "minmax")
		}
		r := fr.val(c.Args[0]).T
		for _, a := range c.Args[1:] {
			op := "<"
			if b.Name() == "max" {
				op = ">"
			}
			r = ite(ar.cmp(op, *it, r, fr.val(a).T), r, fr.val(a).T)
		}
		return sv(ex.q.def("mm", ar.sort(*it), r))
	case "recover":
		return &Val{C: []*Val{sv("0"), sv("nil")}}
	case "close":
		return nil
	}
	panic(unsupported("builtin " + b.Name()))
}

// copyCells: new version of heap dstKey in which n cells starting at
// dst[0] equal the cells of src (read from srcKey in the *old* state) and
// every other cell is unchanged. Quantified axioms (DESIGN §2.3).
func (ex *Exec) copyCells(st *State, dst, src *Val, n string, dstKey, srcKey string) {
	ar := ex.ar
	is := string(ar.idxSort())
	oldDst := ex.heap(st, dstKey)
	oldSrc := ex.heap(st, srcKey)
	s := ex.heapSort(dstKey)
	nh := ex.q.fresh("Hc_"+dstKey, arraySort(s))
	_ = is
	if useLambda {
		// z3 array lambda: the new heap is defined pointwise, reads beta-reduce
		// and the query stays quantifier-free (cvc5 does not accept this; it is
		// left out of the race for such queries)
		dOff := ex.q.def("doff", ar.idxSort(), dst.C[1].T)
		sOff := ex.q.def("soff", ar.idxSort(), src.C[1].T)
		nn := ex.q.def("ncp", ar.idxSort(), n)
		inRange := and("((_ is elem) a)", eq("(ebase a)", dst.C[0].T), ar.cmp("<=", idxT, dOff, "(eidx a)"), ar.cmp("<", idxT, "(eidx a)", ar.add(idxT, dOff, nn)))
		body := "(ite " + inRange + " (select " + oldSrc.term + " (elem " + src.C[0].T + " " + ar.add(idxT, sOff, ar.sub(idxT, "(eidx a)", dOff)) + ")) (select " + oldDst.term + " a))"
		ex.q.n++
		name := fmt.Sprintf("Hc_%s!%d", sanitize(dstKey), ex.q.n)
		ex.q.lines = append(ex.q.lines, fmt.Sprintf("(define-fun %s () %s (lambda ((a Addr)) %s))", name, arraySort(s), body))
		bases := oldDst.bases
		if srcKey == dstKey {
			bases = mergeBases(oldDst.bases, oldSrc.bases)
		}
		st.heaps[dstKey] = &HeapV{term: name, bases: bases}
		ex.usesLambda = true
		return
	}
	// patterns must be built from uninterpreted symbols only: bind the terms
	// that occur in them to declared constants
	bind := func(name string, s Sort, t string) string {
		c := ex.q.fresh(name, s)
		ex.q.assume(eq(c, t))
		return c
	}
	dOff := bind("doff", ar.idxSort(), dst.C[1].T)
	sOff := bind("soff", ar.idxSort(), src.C[1].T)
	dBase := bind("dbase", SAddr, dst.C[0].T)
	sBase := bind("sbase", SAddr, src.C[0].T)
	n = bind("ncp", ar.idxSort(), n)
	dst = &Val{C: []*Val{sv(dBase), sv(dOff), dst.C[2], dst.C[2]}}
	src = &Val{C: []*Val{sv(sBase), sv(sOff), src.C[2], src.C[2]}}
	// copied range (trigger on the absolute element index)
	ex.q.assume(fmt.Sprintf("(forall ((k %s)) (! (=> (and %s %s) (= (select %s (elem %s k)) (select %s (elem %s %s)))) :pattern ((select %s (elem %s k)))))",
		is, ar.cmp("<=", idxT, dOff, "k"), ar.cmp("<", idxT, "k", ar.add(idxT, dOff, n)),
		nh, dst.C[0].T, oldSrc.term, src.C[0].T, ar.add(idxT, sOff, ar.sub(idxT, "k", dOff)),
		nh, dst.C[0].T))
	// frame
	inRange := and("((_ is elem) a)", eq("(ebase a)", dst.C[0].T), ar.cmp("<=", idxT, dOff, "(eidx a)"), ar.cmp("<", idxT, "(eidx a)", ar.add(idxT, dOff, n)))
	ex.q.assume(fmt.Sprintf("(forall ((a Addr)) (! (=> (not %s) (= (select %s a) (select %s a))) :pattern ((select %s a))))", inRange, nh, oldDst.term, nh))
	st.heaps[dstKey] = &HeapV{term: nh, bases: oldDst.bases, quant: true}
	ex.usesQuant = true
}

func mergeBases(a, b []*HeapBase) []*HeapBase {
	seen := map[string]bool{}
	var out []*HeapBase
	for _, x := range append(append([]*HeapBase{}, a...), b...) {
		if !seen[x.name] {
			seen[x.name] = true
			out = append(out, x)
		}
	}
	return out
}

var useLambda = os.Getenv("GOVC_NOLAMBDA") == ""

func (ex *Exec) copyCellsToS8(st *State, dst, src *Val, n string) {
	// string(b): the new (fresh, immutable) string's bytes equal the slice's
	// current bytes. The string heap is versioned like any other heap; the new
	// version is a pointwise (lambda) definition, so reads stay quantifier-free.
	ar := ex.ar
	s8 := ex.heap(st, ex.s8Key())
	p8 := ex.heap(st, ex.pKey("bv8"))
	dOff := ex.q.def("doff", ar.idxSort(), dst.C[1].T)
	sOff := ex.q.def("soff", ar.idxSort(), src.C[1].T)
	nn := ex.q.def("ncp", ar.idxSort(), n)
	inRange := and("((_ is elem) a)", eq("(ebase a)", dst.C[0].T), ar.cmp("<=", idxT, dOff, "(eidx a)"), ar.cmp("<", idxT, "(eidx a)", ar.add(idxT, dOff, nn)))
	body := "(ite " + inRange + " (select " + p8.term + " (elem " + src.C[0].T + " " + ar.add(idxT, sOff, ar.sub(idxT, "(eidx a)", dOff)) + ")) (select " + s8.term + " a))"
	ex.q.n++
	name := fmt.Sprintf("Hs_S8!%d", ex.q.n)
	ex.q.lines = append(ex.q.lines, fmt.Sprintf("(define-fun %s () %s (lambda ((a Addr)) %s))", name, arraySort(ex.heapSort(ex.s8Key())), body))
	st.heaps[ex.s8Key()] = &HeapV{term: name, bases: mergeBases(s8.bases, p8.bases)}
	ex.usesLambda = true
}

// elemLeaf: one scalar cell inside an element of a composite layout: the
// path of fld steps from the element's address to the cell, its heap key and
// sort.
type elemLeaf struct {
	path []int
	key  string
}

// elemLeaves enumerates the cells of one element of layout l (as stored in
// memory at some element address).
func (ex *Exec) elemLeaves(l *Layout, hint string, path []int, out *[]elemLeaf) bool {
	cp := func(extra ...int) []int { return append(append([]int{}, path...), extra...) }
	switch l.Kind {
	case LScalar:
		if hint != "" {
			*out = append(*out, elemLeaf{cp(), ex.hKey(hint, 0, l.Sort)})
		} else {
			*out = append(*out, elemLeaf{cp(), ex.pKey(leafClass(l))})
		}
	case LSlice, LString, LIface:
		sorts := ex.ls.compSorts(l)
		classes := []string{"Addr", "bv64", "bv64", "bv64"}
		if l.Kind == LIface {
			classes = []string{"Int", "Addr"}
		}
		for k, s := range sorts {
			if hint != "" {
				*out = append(*out, elemLeaf{cp(), ex.hKey(hint, k, s)})
			} else {
				*out = append(*out, elemLeaf{cp(-(k + 1)), ex.pKey(classes[k])})
			}
		}
	case LStruct:
		for i, f := range l.Fields {
			h := ""
			if l.Named != nil && ex.P.cleanField(l.Named, i) && f.Kind != LStruct && f.Kind != LArray {
				h = "H:" + fieldKey(l.Named, i)
			}
			if !ex.elemLeaves(f, h, cp(i), out) {
				return false
			}
		}
	default:
		return false // arrays inside elements: not modelled (caller falls back to havoc)
	}
	return true
}

// copyElems copies n elements of layout el from src to dst: for every cell
// of an element, the heap holding it gets a pointwise (lambda) new version.
func (ex *Exec) copyElems(st *State, el *Layout, dst, src *Val, n string) {
	if el.Kind == LScalar {
		k := ex.pKey(leafClass(el))
		ex.copyCells(st, dst, src, n, k, k)
		return
	}
	var leaves []elemLeaf
	if !useLambda || !ex.elemLeaves(el, "", nil, &leaves) {
		fams := map[string]bool{}
		ex.P.leafFamilies(el, "", func(s string) { fams[s] = true })
		ex.havocFamilies(st, fams)
		return
	}
	ar := ex.ar
	dOff := ex.q.def("doff", ar.idxSort(), dst.C[1].T)
	sOff := ex.q.def("soff", ar.idxSort(), src.C[1].T)
	nn := ex.q.def("ncp", ar.idxSort(), n)
	// all reads come from the pre-copy state
	olds := map[string]*HeapV{}
	for _, lf := range leaves {
		if _, ok := olds[lf.key]; !ok {
			olds[lf.key] = ex.heap(st, lf.key)
		}
	}
	// several leaves may share one heap (e.g. len/cap of a slice element): build one lambda per heap
	byKey := map[string][]elemLeaf{}
	var order []string
	for _, lf := range leaves {
		if _, ok := byKey[lf.key]; !ok {
			order = append(order, lf.key)
		}
		byKey[lf.key] = append(byKey[lf.key], lf)
	}
	for _, key := range order {
		old := olds[key]
		body := "(select " + old.term + " a)"
		for _, lf := range byKey[key] {
			// a == path(elem(dbase, i)) with i in [dOff, dOff+n): peel the fld steps from the outside in
			cur := "a"
			var conds []string
			for k := len(lf.path) - 1; k >= 0; k-- {
				conds = append(conds, "((_ is fld) "+cur+")", eq("(fid "+cur+")", intLit(bigInt(lf.path[k]))))
				cur = "(fbase " + cur + ")"
			}
			conds = append(conds, "((_ is elem) "+cur+")", eq("(ebase "+cur+")", dst.C[0].T),
				ar.cmp("<=", idxT, dOff, "(eidx "+cur+")"), ar.cmp("<", idxT, "(eidx "+cur+")", ar.add(idxT, dOff, nn)))
			srcAddr := "(elem " + src.C[0].T + " " + ar.add(idxT, sOff, ar.sub(idxT, "(eidx "+cur+")", dOff)) + ")"
			for _, f := range lf.path {
				srcAddr = "(fld " + srcAddr + " " + intLit(bigInt(f)) + ")"
			}
			body = "(ite " + and(conds...) + " (select " + old.term + " " + srcAddr + ") " + body + ")"
		}
		ex.q.n++
		name := fmt.Sprintf("Hc_%s!%d", sanitize(key), ex.q.n)
		ex.q.lines = append(ex.q.lines, fmt.Sprintf("(define-fun %s () %s (lambda ((a Addr)) %s))", name, arraySort(ex.heapSort(key)), body))
		st.heaps[key] = &HeapV{term: name, bases: old.bases}
	}
	ex.usesLambda = true
}

func bigInt(i int) *big.Int { return big.NewInt(int64(i)) }

func (fr *Frame) appendOp(c *ssa.CallCommon, pos token.Pos) *Val {
	ex := fr.ex
	ar := ex.ar
	s := fr.val(c.Args[0])
	sl := c.Args[0].Type().Underlying().(*types.Slice)
	el := ex.ls.of(sl.Elem())
	var t *Val
	tIsStr := false
	if len(c.Args) > 1 {
		t = fr.val(c.Args[1])
		_, tIsStr = c.Args[1].Type().Underlying().(*types.Basic)
	} else {
		return s
	}
	n := t.C[2].T
	newLen := ex.q.def("alen", ar.idxSort(), ar.add(idxT, s.C[2].T, n))
	fits := ex.q.def("fits", SBool, ar.cmp("<=", idxT, newLen, s.C[3].T))
	// in-place case: write t into s[len:len+n]; otherwise fresh array with old prefix + t
	fresh := ex.alloc(fr.st, "append")
	ncap := ex.q.fresh("acap", ar.idxSort())
	ex.q.assume(and(ar.cmp("<=", idxT, newLen, ncap), ar.cmp("<=", idxT, ncap, ar.lit(idxT, pow2(maxLenBits)))))
	// length sanity (appending cannot exceed the address space)
	ex.q.assume(ar.cmp("<=", idxT, newLen, ar.lit(idxT, pow2(maxLenBits))))
	rbase := ex.q.def("abase", SAddr, ite(fits, s.C[0].T, fresh))
	roff := ex.q.def("aoff", ar.idxSort(), ite(fits, s.C[1].T, ex.idx(0)))
	rcap := ex.q.def("acap", ar.idxSort(), ite(fits, s.C[3].T, ncap))
	res := &Val{C: []*Val{sv(rbase), sv(roff), sv(newLen), sv(rcap)}}
	if el.Kind == LScalar {
		k := ex.pKey(leafClass(el))
		// step 1: (only when reallocating) copy old contents to the fresh array
		dstOld := &Val{C: []*Val{sv(rbase), sv(roff), s.C[2], sv(rcap)}}
		// copying onto itself is the identity when fits
		ex.copyCells(fr.st, dstOld, s, s.C[2].T, k, k)
		// step 2: appended elements
		dstNew := &Val{C: []*Val{sv(rbase), sv(ex.q.def("aoff2", ar.idxSort(), ar.add(idxT, roff, s.C[2].T))), sv(n), sv(n)}}
		srcKey := k
		if tIsStr {
			srcKey = ex.s8Key()
		}
		ex.copyCells(fr.st, dstNew, t, n, k, srcKey)
	} else if tIsStr {
		fams := map[string]bool{}
		ex.P.leafFamilies(el, "", func(s string) { fams[s] = true })
		ex.havocFamilies(fr.st, fams)
	} else {
		dstOld := &Val{C: []*Val{sv(rbase), sv(roff), s.C[2], sv(rcap)}}
		ex.copyElems(fr.st, el, dstOld, s, s.C[2].T)
		dstNew := &Val{C: []*Val{sv(rbase), sv(ex.q.def("aoff2", ar.idxSort(), ar.add(idxT, roff, s.C[2].T))), sv(n), sv(n)}}
		ex.copyElems(fr.st, el, dstNew, t, n)
	}
	return res
}

// sameCycle: f and g call each other (directly or through other analysed functions).
func (P *Prog) sameCycle(f, g *ssa.Function) bool {
	return P.reaches(f, g) && P.reaches(g, f)
}

func (P *Prog) reaches(f, g *ssa.Function) bool {
	key := [2]*ssa.Function{f, g}
	if r, ok := P.reachCache[key]; ok {
		return r
	}
	seen := map[*ssa.Function]bool{}
	work := []*ssa.Function{f}
	found := false
	for len(work) > 0 && !found {
		x := work[len(work)-1]
		work = work[:len(work)-1]
		if seen[x] {
			continue
		}
		seen[x] = true
		for _, b := range x.Blocks {
			for _, in := range b.Instrs {
				if c, ok := in.(ssa.CallInstruction); ok {
					if callee := c.Common().StaticCallee(); callee != nil {
						if callee == g {
							found = true
						}
						if P.isAnalysed(callee) && !seen[callee] {
							work = append(work, callee)
						}
					}
				}
			}
		}
	}
	P.reachMu.Lock()
	P.reachCache[key] = found
	P.reachMu.Unlock()
	return found
}

// recordCallResult: ghost "last result of a call to <name>" (contract builtins
// called(f) / callresult(f)). Keys carry the component sort for state merging.
func (fr *Frame) recordCallResult(callee *ssa.Function, rl *Layout, v *Val) {
	ex := fr.ex
	if rl.Kind == LUnsupported {
		return
	}
	defer func() { recover() }() // values the layout cannot flatten are simply not recorded
	if ex.callResLayout == nil {
		ex.callResLayout = map[string]*Layout{}
	}
	for _, name := range ghostCallNames(callee) {
		k := 0
		ex.ls.zip(rl, []*Val{v}, func(srt Sort, ts []string) string {
			fr.st.ghost[fmt.Sprintf("callres:%s:%d|%s", name, k, srt)] = ts[0]
			k++
			return ts[0]
		})
		ex.callResLayout[name] = rl
	}
}

// recordCallArgs: ghost "arguments of the latest call to <name>" (contract builtin callarg(f, i)).
func (fr *Frame) recordCallArgs(callee *ssa.Function, argv []ssa.Value, args []*Val) {
	ex := fr.ex
	if ex.callArgLayout == nil {
		ex.callArgLayout = map[string][]*Layout{}
	}
	for _, name := range ghostCallNames(callee) {
		ls := make([]*Layout, len(args))
		for i, a := range args {
			l := ex.ls.of(argv[i].Type())
			ls[i] = l
			if l.Kind == LUnsupported {
				continue
			}
			func() {
				defer func() { recover() }()
				k := 0
				ex.ls.zip(l, []*Val{a}, func(srt Sort, ts []string) string {
					fr.st.ghost[fmt.Sprintf("callarg:%s:%d:%d|%s", name, i, k, srt)] = ts[0]
					k++
					return ts[0]
				})
			}()
		}
		ex.callArgLayout[name] = ls
	}
}

// ghostCallNames: the names under which a call is entered in the ghost call log:
// the bare name, and pkg.Name for functions / Type.Name for methods.
func ghostCallNames(callee *ssa.Function) []string {
	names := []string{callee.Name()}
	if recv := callee.Signature.Recv(); recv != nil {
		t := recv.Type()
		if p, ok := t.(*types.Pointer); ok {
			t = p.Elem()
		}
		if n, ok := t.(*types.Named); ok {
			names = append(names, n.Obj().Name()+"."+callee.Name())
		}
	} else if callee.Pkg != nil {
		names = append(names, callee.Pkg.Pkg.Name()+"."+callee.Name())
	}
	return names
}

// preserveLocals: a callee cannot write the cells of a local variable whose address does not escape
// (ssa.Alloc with Heap == false, in this frame or in a frame it is inlined into): their contents are the
// same after the havoc of a call's footprint as before it.
func (fr *Frame) preserveLocals(havoc func()) {
	ex := fr.ex
	type snap struct {
		addr string
		l    *Layout
		v    *Val
		key  string
	}
	var snaps []snap
	for f := fr; f != nil; f = f.parent {
		for v, val := range f.vals {
			a, ok := v.(*ssa.Alloc)
			if !ok || a.Heap || val == nil || val.C != nil {
				continue
			}
			pt, ok := a.Type().Underlying().(*types.Pointer)
			if !ok {
				continue
			}
			l := ex.ls.of(pt.Elem())
			if l.Kind == LUnsupported || (l.Kind == LArray && l.N > 16) || leafCount(l) > 24 {
				continue
			}
			func() {
				defer func() { recover() }()
				snaps = append(snaps, snap{val.T, l, ex.load(fr.st, val.T, l, "", false), fmt.Sprintf("%d:%s:%d", f.depth, a.Name(), a.Pos())})
			}()
		}
	}
	sort.Slice(snaps, func(i, j int) bool { return snaps[i].key < snaps[j].key })
	havoc()
	for _, s := range snaps {
		func() {
			defer func() { recover() }()
			nv := ex.load(fr.st, s.addr, s.l, "", false)
			ex.q.assume(ex.eqVal(s.l, nv, s.v))
		}()
	}
}

func leafCount(l *Layout) int {
	switch l.Kind {
	case LScalar:
		return 1
	case LSlice:
		return 4
	case LString:
		return 3
	case LIface:
		return 2
	case LStruct, LTuple:
		n := 0
		for _, f := range l.Fields {
			n += leafCount(f)
		}
		return n
	case LArray:
		return int(l.N) * leafCount(l.Elem)
	}
	return 1000
}
