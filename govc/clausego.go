package main

// Translation of a contract clause into Go source, so that a violated
// postcondition can be evaluated on the real code's actual results (replay of
// a solver counterexample for `post` / `objinv` obligations, DESIGN §2.7).
// Types of sub-expressions come from the contract evaluator itself.

import (
	"fmt"
	"go/types"
	"sort"
	"strings"
)

type goTr struct {
	cx      *Ctx
	pkg     *types.Package
	imports map[string]bool
	pures   map[string]string // generated Go functions for spec functions
	resMap  map[string]string // result / named result -> Go variable
	params  map[string]bool
	inOld   bool
	failed  string
	helpers map[string]bool
}

func (g *goTr) fail(format string, a ...interface{}) string {
	if g.failed == "" {
		g.failed = fmt.Sprintf(format, a...)
	}
	return "false"
}

func (g *goTr) typeName(t types.Type) string {
	return types.TypeString(t, func(p *types.Package) string {
		if p == g.pkg {
			return ""
		}
		g.imports[p.Path()] = true
		return p.Name()
	})
}

// typeOf: type of e according to the contract evaluator (nil = untyped constant).
func (g *goTr) typeOf(cx *Ctx, e CExpr) (t types.Type) {
	defer func() {
		if r := recover(); r != nil {
			t = nil
		}
	}()
	save := cx.ex.q.inlineDefs
	cx.ex.q.inlineDefs = true
	defer func() { cx.ex.q.inlineDefs = save }()
	sub := *cx
	sub.facts = false
	sub.goal = false
	tv := sub.eval(e)
	return tv.T
}

func (g *goTr) tr(cx *Ctx, e CExpr, want types.Type) string {
	switch x := e.(type) {
	case *CLit:
		switch {
		case x.Int != nil:
			return x.Int.String()
		case x.Bool != nil:
			return fmt.Sprint(*x.Bool)
		default:
			return fmt.Sprintf("%q", *x.Str)
		}
	case *CIdent:
		if v, ok := g.resMap[x.Name]; ok {
			return v
		}
		if x.Name == "nil" {
			return "nil"
		}
		if cx.spec != nil {
			if le, ok := cx.spec.Lets[x.Name]; ok {
				if _, bound := cx.vals[x.Name]; !bound {
					return "(" + g.tr(cx, le, want) + ")"
				}
			}
		}
		if g.params[x.Name] {
			if g.inOld {
				return "old_" + x.Name
			}
			return "a_" + x.Name
		}
		if _, bound := cx.vals[x.Name]; bound {
			return x.Name // quantifier variable or pure-function parameter
		}
		if g.pkg.Scope().Lookup(x.Name) != nil {
			return x.Name
		}
		return g.fail("identifier %s has no Go counterpart at function exit", x.Name)
	case *CSel:
		if id, ok := x.X.(*CIdent); ok {
			for _, imp := range g.pkg.Imports() {
				if imp.Name() == id.Name && !g.params[id.Name] {
					if _, bound := cx.vals[id.Name]; !bound {
						g.imports[imp.Path()] = true
						return id.Name + "." + x.Name
					}
				}
			}
		}
		return g.tr(cx, x.X, nil) + "." + x.Name
	case *CStar:
		return "(*" + g.tr(cx, x.X, nil) + ")"
	case *CIndex:
		return g.tr(cx, x.X, nil) + "[" + g.tr(cx, x.I, tInt) + "]"
	case *CSlice:
		lo, hi := "", ""
		if x.Lo != nil {
			lo = g.tr(cx, x.Lo, tInt)
		}
		if x.Hi != nil {
			hi = g.tr(cx, x.Hi, tInt)
		}
		return g.tr(cx, x.X, nil) + "[" + lo + ":" + hi + "]"
	case *CConv:
		return x.Type + "(" + g.tr(cx, x.X, nil) + ")"
	case *CUnary:
		return "(" + x.Op + g.tr(cx, x.X, want) + ")"
	case *CCond:
		t := g.typeOf(cx, x)
		if t == nil {
			t = want
		}
		if t == nil {
			t = tInt
		}
		tn := g.typeName(t)
		return fmt.Sprintf("func() %s { if %s { return %s }; return %s }()", tn, g.tr(cx, x.C, tBool), g.tr(cx, x.A, t), g.tr(cx, x.B, t))
	case *CQuant:
		sub := cx.child()
		sub.vals[x.Var] = sv(cx.ex.q.fresh("trq", cx.ex.ar.idxSort()))
		sub.types[x.Var] = tInt
		body := g.tr(sub, x.Body, tBool)
		lo, hi := g.tr(cx, x.Lo, tInt), g.tr(cx, x.Hi, tInt)
		if x.Forall {
			return fmt.Sprintf("func() bool { for %s := int(%s); %s < int(%s); %s++ { if !(%s) { return false } }; return true }()", x.Var, lo, x.Var, hi, x.Var, body)
		}
		return fmt.Sprintf("func() bool { for %s := int(%s); %s < int(%s); %s++ { if %s { return true } }; return false }()", x.Var, lo, x.Var, hi, x.Var, body)
	case *CBinary:
		if x.Op == "==>" {
			return "(!(" + g.tr(cx, x.X, tBool) + ") || (" + g.tr(cx, x.Y, tBool) + "))"
		}
		ta, tb := g.typeOf(cx, x.X), g.typeOf(cx, x.Y)
		wa, wb := ta, tb
		if x.Op == "<<" || x.Op == ">>" {
			if wa == nil {
				wa = want
			}
			return "(" + g.tr(cx, x.X, wa) + " " + x.Op + " " + g.tr(cx, x.Y, nil) + ")"
		}
		if wa == nil {
			wa = tb
		}
		if wb == nil {
			wb = ta
		}
		if wa == nil && wb == nil {
			wa, wb = want, want
		}
		// slices / strings compared with == in contracts mean "same header" / equal strings
		if (x.Op == "==" || x.Op == "!=") && ta != nil {
			if _, isSl := ta.Underlying().(*types.Slice); isSl && !isNilExpr(x.X) && !isNilExpr(x.Y) {
				g.helpers["sameslice"] = true
				r := "verifSameSlice(" + g.tr(cx, x.X, nil) + ", " + g.tr(cx, x.Y, nil) + ")"
				if x.Op == "!=" {
					r = "!" + r
				}
				return r
			}
		}
		return "(" + g.tr(cx, x.X, wa) + " " + x.Op + " " + g.tr(cx, x.Y, wb) + ")"
	case *CCall:
		switch x.Fun {
		case "len", "cap":
			return x.Fun + "(" + g.tr(cx, x.Args[0], nil) + ")"
		case "old", "entry":
			sub := *cx
			sub.inOld = true
			save := g.inOld
			g.inOld = true
			r := g.tr(&sub, x.Args[0], want)
			g.inOld = save
			return r
		case "fresh":
			return "true"
		case "isnil":
			return "(" + g.tr(cx, x.Args[0], nil) + " == nil)"
		case "sameSlice":
			g.helpers["sameslice"] = true
			return "verifSameSlice(" + g.tr(cx, x.Args[0], nil) + ", " + g.tr(cx, x.Args[1], nil) + ")"
		case "defined", "called", "callresult", "callarg":
			return g.fail("%s() refers to the execution, not to the result", x.Fun)
		case "strings.HasPrefix":
			g.imports["strings"] = true
			return "strings.HasPrefix(" + g.tr(cx, x.Args[0], nil) + ", " + g.tr(cx, x.Args[1], nil) + ")"
		case "pre", "held":
			return g.fail("%s() cannot be evaluated at function exit", x.Fun)
		}
		if t := basicTypeByName(x.Fun); t != nil && len(x.Args) == 1 {
			return x.Fun + "(" + g.tr(cx, x.Args[0], nil) + ")"
		}
		if pf := cx.findPure(x.Fun); pf != nil {
			name := "verifPure_" + sanitize(pf.Pkg) + "_" + pf.Name
			name = strings.ReplaceAll(name, ".", "_")
			if _, done := g.pures[name]; !done {
				g.pures[name] = "" // recursion guard
				sub := cx.child()
				sub.spec = nil
				sub.lookup = nil
				sub.oldVals = nil
				if sp := cx.ex.P.pkgByPath[pf.Pkg]; sp != nil {
					sub.pkg = sp.Pkg
				}
				var ps []string
				nv := map[string]*Val{}
				nt := map[string]types.Type{}
				for i, p := range pf.Params {
					pt := sub.resolveType(pf.PTypes[i])
					nv[p] = cx.ex.freshVal(cx.ex.ls.of(pt), "trp")
					nt[p] = pt
					ps = append(ps, p+" "+g.typeName(pt))
				}
				sub.vals, sub.types = nv, nt
				var rt types.Type
				if pf.RType != "" {
					rt = sub.resolveType(pf.RType)
				} else {
					rt = g.typeOf(sub, pf.Body)
				}
				if rt == nil {
					rt = tInt
				}
				saveOld := g.inOld
				g.inOld = false
				saveParams := g.params
				g.params = map[string]bool{}
				body := g.tr(sub, pf.Body, rt)
				g.params = saveParams
				g.inOld = saveOld
				g.pures[name] = fmt.Sprintf("func %s(%s) %s { return %s(%s) }", name, strings.Join(ps, ", "), g.typeName(rt), g.typeName(rt), body)
			}
			var as []string
			sub := cx.child()
			for i, a := range x.Args {
				var pt types.Type
				func() {
					defer func() { recover() }()
					pt = sub.resolveType(pf.PTypes[i])
				}()
				s := g.tr(cx, a, pt)
				if pt != nil {
					if _, isBasic := pt.Underlying().(*types.Basic); isBasic {
						s = g.typeName(pt) + "(" + s + ")"
					}
				}
				as = append(as, s)
			}
			return name + "(" + strings.Join(as, ", ") + ")"
		}
		return g.fail("function %s has no Go counterpart", x.Fun)
	}
	return g.fail("cannot translate %s", e)
}

// clauseToGo returns (helper declarations, boolean Go expression) for a clause
// evaluated in ctx cx at function exit.
func clauseToGo(cx *Ctx, pkg *types.Package, e CExpr, params map[string]bool, resMap map[string]string, imports map[string]bool) (decls string, expr string, err string) {
	g := &goTr{cx: cx, pkg: pkg, imports: imports, pures: map[string]string{}, resMap: resMap, params: params, helpers: map[string]bool{}}
	expr = g.tr(cx, e, tBool)
	if g.failed != "" {
		return "", "", g.failed
	}
	var names []string
	for n := range g.pures {
		names = append(names, n)
	}
	sort.Strings(names)
	var b strings.Builder
	for _, n := range names {
		b.WriteString(g.pures[n] + "\n")
	}
	if g.helpers["sameslice"] {
		imports["reflect"] = true
		b.WriteString("func verifSameSlice(a, b interface{}) bool { va, vb := reflect.ValueOf(a), reflect.ValueOf(b); if va.Kind() != reflect.Slice || vb.Kind() != reflect.Slice { return reflect.DeepEqual(a, b) }; return va.Len() == vb.Len() && (va.Len() == 0 || va.Pointer() == vb.Pointer()) }\n")
	}
	return b.String(), expr, ""
}
