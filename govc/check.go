package main

import (
	"bufio"
	"context"
	"encoding/json"
	"flag"
	"fmt"
	"os"
	"os/exec"
	"path/filepath"
	"regexp"
	"sort"
	"strconv"
	"strings"
	"sync"
	"time"

	"golang.org/x/tools/go/ssa"
)

var verifDir = envOr("VERIF_DIR", "/verif")

type exhaustiveRun struct {
	Pkg    string `json:"pkg"`    // package directory under /repo, e.g. pkg/mpegts
	File   string `json:"file"`   // test file under /verif, injected by overlay
	Domain string `json:"domain"` // what finite domain is enumerated
}

type propCfg struct {
	Exhaustive []exhaustiveRun `json:"exhaustive"` // exhaustive evaluations of the real code over a finite domain (labelled as such, never counted as proved)
	Entries    []string        `json:"entries"`    // function keys (suffix match) whose static call closure is swept for panic-freedom
	Exclude    []string        `json:"exclude"`    // package path prefixes / function key suffixes not followed
	Note       string          `json:"note"`
}

func loadPropCfg() map[string]*propCfg {
	out := map[string]*propCfg{}
	data, err := os.ReadFile(filepath.Join(verifDir, "props.json"))
	if err != nil {
		return out
	}
	if err := json.Unmarshal(data, &out); err != nil {
		fmt.Fprintln(os.Stderr, "props.json:", err)
		os.Exit(2)
	}
	return out
}

func readList(path string) map[string]string {
	out := map[string]string{}
	f, err := os.Open(path)
	if err != nil {
		return out
	}
	defer f.Close()
	sc := bufio.NewScanner(f)
	sc.Buffer(make([]byte, 1<<20), 1<<20)
	for sc.Scan() {
		l := strings.TrimSpace(sc.Text())
		if l == "" || strings.HasPrefix(l, "#") {
			continue
		}
		parts := strings.SplitN(l, "\t", 2)
		if len(parts) == 2 {
			out[parts[0]] = parts[1]
		} else {
			out[l] = ""
		}
	}
	return out
}

type knownFinding struct {
	Prop, Obl, What string
	Fixed           bool
}

var kfRe = regexp.MustCompile(`^(fixed:\s*)?property=(\S+)\s+(\S+)\s*(.*)$`)

func readKnownFindings() []knownFinding {
	var out []knownFinding
	f, err := os.Open(filepath.Join(verifDir, "known_findings.txt"))
	if err != nil {
		return nil
	}
	defer f.Close()
	sc := bufio.NewScanner(f)
	for sc.Scan() {
		l := strings.TrimSpace(sc.Text())
		if l == "" || strings.HasPrefix(l, "#") {
			continue
		}
		m := kfRe.FindStringSubmatch(l)
		if m == nil {
			continue
		}
		out = append(out, knownFinding{Prop: m[2], Obl: m[3], What: m[4], Fixed: m[1] != ""})
	}
	return out
}

var propOfLabel = regexp.MustCompile(`^(C[0-9]{2,3})\.`)

var sweepOnlyContractKind = map[string]bool{"post": true, "step": true, "inv-entry": true, "inv-keep": true, "objinv": true, "dec": true, "returns": true}

func oblInProp(o *Obl, prop string, fnProps []string) bool {
	has := false
	for _, p := range fnProps {
		if p == prop {
			has = true
		}
	}
	if !has {
		return false
	}
	if o.Label != "" {
		// labels may carry several property tags: C08.x,C01.y
		tagged := false
		for _, part := range strings.Split(o.Label, ",") {
			if m := propOfLabel.FindStringSubmatch(part); m != nil {
				tagged = true
				if m[1] == prop {
					return true
				}
			}
		}
		if tagged {
			return false
		}
	}
	return true
}

type funcJob struct {
	key   string
	fn    *ssa.Function
	props []string
	sweep bool
}

// propFunctions: the functions whose obligations are attributed to prop.
func (P *Prog) propFunctions(prop string, cfg map[string]*propCfg) []*funcJob {
	jobs := map[string]*funcJob{}
	for k, sp := range P.specs.Funcs {
		for _, p := range sp.Props {
			if p == prop {
				fn := P.funcs[k]
				jobs[k] = &funcJob{key: k, fn: fn, props: sp.Props}
			}
		}
	}
	if c := cfg[prop]; c != nil {
		for _, fn := range P.sweepSet(c) {
			k := P.keyOf[fn]
			if j, ok := jobs[k]; ok {
				j.sweep = true
				continue
			}
			props := []string{prop}
			if sp := P.specs.Funcs[k]; sp != nil {
				props = append(props, sp.Props...)
			}
			jobs[k] = &funcJob{key: k, fn: fn, props: props, sweep: true}
		}
	}
	var out []*funcJob
	for _, j := range jobs {
		out = append(out, j)
	}
	sort.Slice(out, func(i, j int) bool { return out[i].key < out[j].key })
	return out
}

// sweepSet: analysed functions statically reachable from the entries.
func (P *Prog) sweepSet(c *propCfg) []*ssa.Function {
	excluded := func(k string) bool {
		for _, e := range c.Exclude {
			if strings.HasSuffix(k, e) || strings.HasPrefix(k, e) {
				return true
			}
		}
		return false
	}
	seen := map[*ssa.Function]bool{}
	isEntry := map[*ssa.Function]bool{}
	var skipped []*ssa.Function
	var work []*ssa.Function
	defer func() { P.sweepInlined = skipped }()
	for _, e := range c.Entries {
		found := false
		for k, fn := range P.funcs {
			if k == e || strings.HasSuffix(k, "/"+e) {
				work = append(work, fn)
				isEntry[fn] = true
				found = true
			}
		}
		if !found {
			fmt.Fprintf(os.Stderr, "props.json: entry %s not found\n", e)
		}
	}
	var out []*ssa.Function
	for len(work) > 0 {
		fn := work[len(work)-1]
		work = work[:len(work)-1]
		if seen[fn] {
			continue
		}
		seen[fn] = true
		k := P.keyOf[fn]
		if excluded(k) || !strings.HasPrefix(k, lalPrefix) && !strings.HasPrefix(k, nazaPrefix) {
			continue
		}
		if P.pureExternal(fn) {
			continue
		}
		// small loop-free helpers are executed in place at every call site, where
		// their panic obligations are charged to the caller; they are not
		// verified again on their own with an arbitrary precondition
		if !(isEntry[fn] || P.specFor(fn) != nil || !P.alwaysInlined(fn)) {
			skipped = append(skipped, fn)
		} else {
			out = append(out, fn)
		}
		for _, b := range fn.Blocks {
			for _, in := range b.Instrs {
				switch x := in.(type) {
				case ssa.CallInstruction:
					if _, isGo := in.(*ssa.Go); isGo {
						continue
					}
					if callee := x.Common().StaticCallee(); callee != nil && P.isAnalysed(callee) {
						work = append(work, callee)
					}
				case *ssa.MakeClosure:
					if f, ok := x.Fn.(*ssa.Function); ok && P.isAnalysed(f) {
						work = append(work, f)
					}
				}
			}
		}
	}
	sort.Slice(out, func(i, j int) bool { return P.keyOf[out[i]] < P.keyOf[out[j]] })
	return out
}

type oblRecord struct {
	Name    string  `json:"name"`
	Kind    string  `json:"kind"`
	Status  string  `json:"status"`
	Solver  string  `json:"solver,omitempty"`
	Seconds float64 `json:"seconds"`
	Src     string  `json:"src,omitempty"`
	Text    string  `json:"text,omitempty"`
}

func cmdCheck(args []string) {
	fs := flag.NewFlagSet("check", flag.ExitOnError)
	tier := fs.String("tier", envOr("VERIF_TIER", "quick"), "quick|thorough")
	writeBaseline := fs.Bool("write-baseline", false, "record discharged/undecided obligations of the current tree as the baseline (only on the unchanged tree)")
	verbose := fs.Bool("v", false, "list every non-discharged obligation")
	triage := fs.Bool("triage", false, "replay every non-discharged panic obligation on the real code and print the confirmed ones (no baseline, no evidence claims)")
	if len(args) < 1 {
		fmt.Fprintln(os.Stderr, "usage: govc check <property> [--tier quick|thorough]")
		os.Exit(2)
	}
	prop := args[0]
	fs.Parse(args[1:])
	seed, _ := strconv.Atoi(envOr("VERIF_SEED", "0"))
	thorough := *tier == "thorough"
	t0 := time.Now()
	repo := envOr("VERIF_REPO", "/repo")
	evidencePath := filepath.Join(envOr("VERIF_EVIDENCE_DIR", filepath.Join(verifDir, "evidence")), prop+".json")
	os.MkdirAll(filepath.Dir(evidencePath), 0o755)
	os.Remove(evidencePath)

	P, err := loadProg(repo, filepath.Join(verifDir, "contracts"))
	if err != nil {
		// the tree does not load: nothing can be claimed; report as a broken check input
		fmt.Fprintln(os.Stderr, "govc: cannot load /repo:", err)
		replay := writeReplay(prop, "load", map[string]interface{}{"obligation": "load:/repo", "error": err.Error()})
		fmt.Printf("VIOLATION property=%s replay=%s no-failing-input-found\n", prop, replay)
		os.Exit(1)
	}
	P.computeMods()
	cfg := loadPropCfg()
	jobs := P.propFunctions(prop, cfg)
	if len(jobs) == 0 {
		fmt.Fprintf(os.Stderr, "govc: no functions attributed to %s\n", prop)
		os.Exit(2)
	}
	ms := 10000
	if thorough {
		ms = 20000
	}
	tmp, _ := os.MkdirTemp("", "govc-"+prop+"-")
	defer os.RemoveAll(tmp)
	solver := newSolver(tmp, seed, ms, 16)
	solver.lastResort = thorough
	if thorough {
		solver.maxCubes = 48
		solver.oblBudget = 45 * time.Second
	} else {
		solver.oblBudget = 25 * time.Second
	}

	claimed := readList(filepath.Join(verifDir, "baseline", prop+".claimed"))
	undecided := readList(filepath.Join(verifDir, "baseline", prop+".undecided"))
	quickClaimed, quickUndecided := map[string]bool{}, map[string]bool{}
	for k := range claimed {
		quickClaimed[k] = true
	}
	for k := range undecided {
		quickUndecided[k] = true
	}
	if thorough {
		// the thorough tier has its own additional baseline (thorough-only clauses)
		for k, v := range readList(filepath.Join(verifDir, "baseline", prop+".thorough.claimed")) {
			claimed[k] = v
		}
		for k, v := range readList(filepath.Join(verifDir, "baseline", prop+".thorough.undecided")) {
			undecided[k] = v
			delete(claimed, k)
		}
	}
	if *writeBaseline && !thorough {
		claimed, undecided = map[string]string{}, map[string]string{}
	}
	if *writeBaseline && thorough {
		// keep the quick baseline, (re)compute only the thorough additions
		for k := range claimed {
			if !quickClaimed[k] {
				delete(claimed, k)
			}
		}
		for k := range undecided {
			if !quickUndecided[k] {
				delete(undecided, k)
			}
		}
	}
	// automatic invariant candidates recorded as proved in any property's baseline (a function's candidates are
	// proved under the property that owns its contract and used as assumptions by the sweeps that reach it)
	allClaimedAutos := map[string]bool{}
	if fs, err := filepath.Glob(filepath.Join(verifDir, "baseline", "*.claimed")); err == nil {
		for _, f := range fs {
			if strings.Contains(filepath.Base(f), ".thorough.") && !thorough {
				continue
			}
			for name := range readList(f) {
				if strings.Contains(name, ":auto:") {
					allClaimedAutos[name] = true
				}
			}
		}
	}
	kfs := readKnownFindings()
	known := map[string]knownFinding{}
	for _, k := range kfs {
		if k.Prop == prop && !k.Fixed {
			known[k.Obl] = k
		}
	}

	type fres struct {
		job *funcJob
		res *FuncResult
		vs  []*Verdict
	}
	results := make([]*fres, len(jobs))
	var wg sync.WaitGroup
	gen := make(chan struct{}, 6)
	for i, j := range jobs {
		wg.Add(1)
		go func(i int, j *funcJob) {
			defer wg.Done()
			gen <- struct{}{}
			tf := time.Now()
			var res *FuncResult
			if j.fn == nil {
				res = &FuncResult{Key: j.key, ContractErr: "contract names a function that does not exist: " + j.key}
			} else {
				if *writeBaseline || *triage {
					res = P.verifyFunc(j.fn, thorough)
				} else {
					// candidates pinned by the baseline: "<fn>:inv-keep:loopN:auto:<cand>#k" -> "loopN:auto:<cand>"
					pinned := map[string]bool{}
					pre := shortKey(j.key) + ":inv-"
					for name := range allClaimedAutos {
						if strings.HasPrefix(name, pre) && strings.Contains(name, ":auto:") {
							if i := strings.Index(name, ":loop"); i >= 0 {
								c := name[i+1:]
								if k := strings.LastIndex(c, "#"); k >= 0 {
									c = c[:k]
								}
								pinned[c] = true
							}
						}
					}
					res = P.verifyFuncPinned(j.fn, thorough, pinned)
				}
			}
			<-gen
			tg := time.Since(tf).Seconds()
			budget := !j.sweep || res.Spec != nil
			var skippedUnd []*Obl
			vs := P.solveFuncBudget(solver, res, thorough, func(o *Obl) bool {
				if !oblInProp(o, prop, j.props) {
					return false
				}
				// a function that is in this property only because the sweep reaches it, and that carries a contract
				// of another property: its contract-kind obligations (invariants, postconditions, ...) are decided
				// under that property; the sweep takes its panic-freedom obligations only
				if j.sweep && res.Spec != nil && !o.Cover && sweepOnlyContractKind[o.Kind] {
					own := false
					for _, sp := range res.Spec.Props {
						if sp == prop {
							own = true
						}
					}
					if !own {
						return false
					}
				}
				// `safety Cnn`: the function's unlabelled (panic-freedom) obligations are accounted to the sweep
				// of that property only; under the other properties only its labelled clauses are checked
				if res.Spec != nil && res.Spec.SafetyProp != "" && res.Spec.SafetyProp != prop && o.Label == "" && !o.Cover {
					return false
				}
				if _, und := undecided[o.Name]; und && !thorough && !*writeBaseline && !o.Cover && !*triage {
					skippedUnd = append(skippedUnd, o)
					return false
				}
				return true
			}, budget)
			if *writeBaseline {
				// claim only obligations that are also discharged with a third of the
				// budget (slow proofs are the unstable ones, DESIGN §2.6)
				conf := *solver
				conf.quickMs = solver.quickMs / 3
				if !budget {
					conf.quickMs = 400
				}
				conf.fastOnly = !budget
				conf.perSolver = map[string]int{}
				conf.mu = &sync.Mutex{}
				var wg2 sync.WaitGroup
				for _, v := range vs {
					if v.Obl.Cover || v.Status != "unsat" || res.Ex == nil {
						continue
					}
					wg2.Add(1)
					go func(v *Verdict) {
						defer wg2.Done()
						ex2 := res.Ex
						if strings.HasSuffix(v.Solver, "[int]") || strings.HasSuffix(v.Solver, "[bv]") {
							// proved in the other encoding (fallback or `int:` hint): no cheap re-run exists;
							// claimed only when the whole attempt was fast
							if v.Seconds > 15 {
								v.Status = "unstable"
								v.Solver = fmt.Sprintf("discharged in the other encoding only after %.1fs", v.Seconds)
								return
							}
							for _, sd := range []int{seed + 1, seed + 2} {
								c2 := *solver
								c2.seed = sd
								c2.perSolver = map[string]int{}
								c2.mu = &sync.Mutex{}
								v2 := c2.solve(ex2, v.Obl)
								if v2.Status != "unsat" || v2.Seconds > 15 {
									v.Status = "unstable"
									v.Solver = fmt.Sprintf("other encoding: %s after %.1fs under seed %d", v2.Status, v2.Seconds, sd)
									return
								}
							}
							return
						}
						// re-discharge with a third of the budget under two other solver seeds (the checks are run
						// with VERIF_SEED set by the caller): a proof that depends on the seed or needs many
						// cubes / stages is the kind that times out elsewhere
						for _, sd := range []int{seed + 1, seed + 2} {
							c2 := conf
							c2.seed = sd
							v2 := c2.solve(ex2, v.Obl)
							if v2.Status != "unsat" {
								v.Status = "unstable"
								v.Solver = fmt.Sprintf("not re-discharged with a third of the budget under seed %d", sd)
								return
							}

						}
					}(v)
				}
				wg2.Wait()
			} else {
				// a claimed obligation that is not discharged is retried once with four
				// times the budget and every stage before it is reported
				pat := *solver
				pat.quickMs = solver.quickMs * 4
				pat.fastOnly = false
				pat.perSolver = map[string]int{}
				pat.mu = &sync.Mutex{}
				var wg2 sync.WaitGroup
				for _, v := range vs {
					if v.Obl.Cover || v.Status == "unsat" || v.Status == "sat" || res.Ex == nil {
						continue
					}
					if _, isClaimed := claimed[v.Obl.Name]; !isClaimed {
						continue
					}
					wg2.Add(1)
					go func(v *Verdict) {
						defer wg2.Done()
						v2 := &Verdict{Status: "skipped"}
						if !(v.AltEx != nil && v.Obl.Mode != "") {
							v2 = pat.solve(res.Ex, v.Obl)
						}
						if v2.Status == "unsat" {
							v.Status, v.Solver = "unsat", v2.Solver+"(retry)"
						} else if v.AltEx != nil && v.AltObl != nil {
							// the clause is (also) decided in the other integer encoding: retry it there
							v3 := pat.solve(v.AltEx, v.AltObl)
							if v3.Status == "unsat" {
								v.Status, v.Solver = "unsat", v3.Solver+"[other](retry)"
							}
						}
					}(v)
				}
				wg2.Wait()
			}
			for _, o := range skippedUnd {
				vs = append(vs, &Verdict{Obl: o, Status: "not-attempted(undecided-in-baseline)", Solver: "-"})
			}
			if os.Getenv("GOVC_PROGRESS") != "" {
				nf := 0
				for _, v := range vs {
					if !v.Obl.Cover && v.Status != "unsat" {
						nf++
					}
				}
				fmt.Fprintf(os.Stderr, "[%6.1fs] %-70s gen %5.1fs solve %6.1fs obls %4d open %3d %s%s\n", time.Since(t0).Seconds(), shortKey(j.key), tg, time.Since(tf).Seconds()-tg, len(vs), nf, res.Unsupported, res.ContractErr)
			}
			results[i] = &fres{j, res, vs}
		}(i, j)
	}
	wg.Wait()

	if *triage {
		type tr struct {
			name string
			rr   *ReplayResult
		}
		var mu sync.Mutex
		var out []tr
		var wg3 sync.WaitGroup
		sem := make(chan struct{}, 12)
		var filt *regexp.Regexp
		if f := os.Getenv("GOVC_TRIAGE_FILTER"); f != "" {
			filt = regexp.MustCompile(f)
		}
		for _, r := range results {
			if r.res.Ex == nil {
				continue
			}
			for _, v := range r.vs {
				if v.Obl.Cover || v.Status == "unsat" || !panicKinds[v.Obl.Kind] {
					continue
				}
				// only models count: a timeout has no input to replay
				if v.Status != "sat" {
					continue
				}
				if filt != nil && !filt.MatchString(v.Obl.Name) {
					continue
				}
				wg3.Add(1)
				go func(r *fres, v *Verdict) {
					defer wg3.Done()
					sem <- struct{}{}
					defer func() { <-sem }()
					sub, _ := os.MkdirTemp(tmp, "tri")
					rr := tryReplay(P, r.res.Ex, v.Obl, v, sub, seed)
					if rr != nil && rr.Confirmed {
						fmt.Fprintf(os.Stderr, "confirmed-so-far %s [%s]\n", v.Obl.Name, v.Obl.SrcPos)
					}
					mu.Lock()
					out = append(out, tr{v.Obl.Name + " [" + v.Obl.SrcPos + "]", rr})
					mu.Unlock()
				}(r, v)
			}
		}
		wg3.Wait()
		sort.Slice(out, func(i, j int) bool { return out[i].name < out[j].name })
		for _, t := range out {
			if t.rr != nil && t.rr.Confirmed {
				fmt.Printf("CONFIRMED %s\n", t.name)
				var ks []string
				for k := range t.rr.Inputs {
					ks = append(ks, k)
				}
				sort.Strings(ks)
				for _, k := range ks {
					fmt.Printf("    %s = %s\n", k, truncate(t.rr.Inputs[k], 400))
				}
				for _, l := range strings.Split(t.rr.Output, "\n") {
					if strings.Contains(l, "VERIF-REPLAY-PANIC") || strings.HasPrefix(l, "panic:") {
						fmt.Printf("    -> %s\n", truncate(l, 200))
					}
				}
			} else if t.rr != nil {
				fmt.Printf("not-confirmed %s: %s\n", t.name, truncate(t.rr.Note, 160))
			}
		}
		return
	}
	var records []oblRecord
	nObl, nDis := 0, 0
	var violations []string
	var knownHit, undecidedHit, newUndecided []string
	var funcsInfo []map[string]interface{}
	trusted := map[string]bool{}
	seenNames := map[string]bool{}
	var termUnproved []string
	coverRun, coverSat := 0, 0
	bounded := []string{}
	var baseClaimed, baseUndecided []string
	fnKindAllClaimed := func(fn, kind string) bool {
		// every baseline obligation of this function and kind was claimed
		pre := shortKey(fn) + ":" + kind + ":"
		for n := range undecided {
			if strings.HasPrefix(n, pre) {
				return false
			}
		}
		for n := range known {
			if strings.HasPrefix(n, pre) {
				return false
			}
		}
		return true
	}
	report := func(o *Obl, v *Verdict, why string, ex *Exec) {
		data := map[string]interface{}{"property": prop, "obligation": o.Name, "kind": o.Kind, "source": o.SrcPos, "text": o.Text, "reason": why}
		confirmed := false
		if v != nil {
			data["solver"] = v.Solver
			data["solver_status"] = v.Status
			data["solver_output"] = truncate(v.Output, 4000)
			if ex != nil {
				rp := tryReplay(P, ex, o, v, tmp, seed)
				if rp != nil {
					data["replay"] = rp
					confirmed = rp.Confirmed
				}
			}
		}
		path := writeReplay(prop, o.Name, data)
		line := fmt.Sprintf("VIOLATION property=%s replay=%s", prop, path)
		if !confirmed {
			line += " no-failing-input-found"
		}
		violations = append(violations, line)
		fmt.Fprintf(os.Stderr, "  violated obligation: %s (%s) %s\n", o.Name, why, o.SrcPos)
	}
	for _, r := range results {
		info := map[string]interface{}{"function": shortKey(r.job.key), "mode": r.res.Mode, "contract": r.res.Spec != nil, "sweep": r.job.sweep}
		if r.res.Unsupported != "" {
			info["unsupported"] = r.res.Unsupported
		}
		if r.res.ContractErr != "" {
			info["contract_error"] = r.res.ContractErr
		}
		if r.res.Ex != nil {
			for k := range r.res.Ex.trusted {
				trusted[k] = true
			}
			var inl []string
			for k := range r.res.Ex.inlined {
				inl = append(inl, shortKey(k))
			}
			sort.Strings(inl)
			if len(inl) > 0 {
				info["inlined_callees"] = inl
			}
			termUnproved = append(termUnproved, r.res.Ex.termUnproved...)
		}
		info["obligations"] = len(r.vs)
		funcsInfo = append(funcsInfo, info)
		if r.res.ContractErr != "" {
			// the code a contract was written for has changed shape (or the contract is broken)
			o := &Obl{Name: shortKey(r.job.key) + ":contract:wellformed#0", Kind: "contract", Fn: r.job.key, Text: r.res.ContractErr}
			seenNames[o.Name] = true
			if _, ok := claimed[o.Name]; ok || len(claimed) > 0 {
				report(o, nil, "contract no longer applies: "+r.res.ContractErr, nil)
			} else {
				fmt.Fprintln(os.Stderr, "contract error:", r.res.ContractErr)
			}
			continue
		}
		if r.res.Unsupported != "" {
			fmt.Fprintf(os.Stderr, "unsupported: %s: %s\n", shortKey(r.job.key), r.res.Unsupported)
			// every claimed obligation of this function is now unproved
			pre := shortKey(r.job.key) + ":"
			for n := range claimed {
				if strings.HasPrefix(n, pre) && !seenNames[n] {
					seenNames[n] = true
					report(&Obl{Name: n, Kind: "unsupported", Fn: r.job.key}, nil, "function left the verifier's subset: "+r.res.Unsupported, nil)
				}
			}
			baseUndecided = append(baseUndecided, shortKey(r.job.key)+":*\tunsupported: "+r.res.Unsupported)
			continue
		}
		anyFail := false
		for _, v := range r.vs {
			if !v.Obl.Cover && v.Status != "unsat" {
				anyFail = true
			}
		}
		for _, v := range r.vs {
			o := v.Obl
			seenNames[o.Name] = true
			if o.Cover {
				coverRun++
				if v.Status == "sat" {
					coverSat++
				} else if v.Status == "unsat" && !anyFail {
					// vacuous contract: preconditions contradictory or exit unreachable
					// (not reported when another obligation of the function already fails:
					// a failed check is assumed afterwards, which cuts the paths behind it)
					if _, isUnd := undecided[o.Name]; !isUnd {
						report(o, v, "vacuity: "+o.Text+" is unsatisfiable", r.res.Ex)
					}
				}
				continue
			}
			rec := oblRecord{Name: o.Name, Kind: o.Kind, Status: v.Status, Solver: v.Solver, Seconds: v.Seconds, Src: o.SrcPos, Text: o.Text}
			ok := v.Status == "unsat"
			_, isUnd := undecided[o.Name]
			kf, isKnown := known[o.Name]
			_, isClaimed := claimed[o.Name]
			switch {
			case ok:
				if isUnd && !*writeBaseline {
					// proved now although the baseline lists it as undecided: not counted (keeps counts stable), noted
					rec.Status = "unsat(undecided-in-baseline)"
					undecidedHit = append(undecidedHit, o.Name)
				} else if isKnown {
					rec.Status = "unsat(listed-as-known-finding)"
				} else {
					nObl++
					nDis++
					baseClaimed = append(baseClaimed, o.Name)
				}
			case isKnown:
				knownHit = append(knownHit, o.Name)
				fmt.Printf("KNOWN-FINDING: property=%s %s %s\n", prop, o.Name, kf.What)
			case isUnd:
				undecidedHit = append(undecidedHit, o.Name)
			case *writeBaseline:
				baseUndecided = append(baseUndecided, o.Name+"\t"+v.Status+" ("+v.Solver+")")
				undecidedHit = append(undecidedHit, o.Name)
			case isClaimed:
				nObl++
				report(o, v, "passed on the unchanged tree, fails now ("+v.Status+")", r.res.Ex)
			default:
				// new name
				contractKind := o.Kind == "post" || o.Kind == "step" || o.Kind == "inv-entry" || o.Kind == "inv-keep" || o.Kind == "pre" || o.Kind == "objinv" || o.Kind == "dec"
				if contractKind || fnKindAllClaimed(o.Fn, o.Kind) {
					nObl++
					report(o, v, "new obligation in a function whose "+o.Kind+" obligations were all discharged; not discharged ("+v.Status+")", r.res.Ex)
				} else {
					// (c): only a confirmed failing input makes it a violation
					rp := tryReplay(P, r.res.Ex, o, v, tmp, seed)
					if rp != nil && rp.Confirmed {
						nObl++
						report(o, v, "new obligation with a confirmed failing input", r.res.Ex)
					} else {
						newUndecided = append(newUndecided, o.Name)
					}
				}
			}
			if rec.Status != "unsat" || len(records) < 6 || *verbose {
				records = append(records, rec)
			}
			if !ok && *verbose {
				fmt.Fprintf(os.Stderr, "  not discharged: %-8s %s [%s]\n", v.Status, o.Name, o.SrcPos)
			}
		}
	}
	// vacuity: claimed contract clauses must still be generated
	for n := range claimed {
		if seenNames[n] {
			continue
		}
		parts := strings.SplitN(n, ":", 3)
		if len(parts) < 3 {
			continue
		}
		switch parts[1] {
		case "post", "step", "inv-entry", "inv-keep", "objinv", "dec":
			if *writeBaseline && thorough {
				// writing the thorough baseline: an automatic candidate of the quick baseline that the thorough
				// search did not keep is undecided in the thorough tier, not a violation
				baseUndecided = append(baseUndecided, n+"\tnot generated in the thorough tier")
				continue
			}
			report(&Obl{Name: n, Kind: parts[1]}, nil, "claimed contract obligation is no longer generated (the code it was written for changed shape)", nil)
			nObl++
		}
	}
	if *writeBaseline && thorough {
		var tc, tu []string
		for _, n := range baseClaimed {
			if !quickClaimed[n] {
				tc = append(tc, n)
			}
		}
		for _, l := range baseUndecided {
			if !quickUndecided[strings.SplitN(l, "\t", 2)[0]] {
				tu = append(tu, l)
			}
		}
		sort.Strings(tc)
		sort.Strings(tu)
		os.WriteFile(filepath.Join(verifDir, "baseline", prop+".thorough.claimed"), []byte(strings.Join(tc, "\n")+"\n"), 0o644)
		os.WriteFile(filepath.Join(verifDir, "baseline", prop+".thorough.undecided"), []byte(strings.Join(tu, "\n")+"\n"), 0o644)
		fmt.Fprintf(os.Stderr, "thorough baseline written: %d claimed, %d undecided (in addition to the quick baseline)\n", len(tc), len(tu))
	} else if *writeBaseline {
		os.MkdirAll(filepath.Join(verifDir, "baseline"), 0o755)
		sort.Strings(baseClaimed)
		sort.Strings(baseUndecided)
		os.WriteFile(filepath.Join(verifDir, "baseline", prop+".claimed"), []byte(strings.Join(baseClaimed, "\n")+"\n"), 0o644)
		os.WriteFile(filepath.Join(verifDir, "baseline", prop+".undecided"), []byte(strings.Join(baseUndecided, "\n")+"\n"), 0o644)
		fmt.Fprintf(os.Stderr, "baseline written: %d claimed, %d undecided\n", len(baseClaimed), len(baseUndecided))
	}
	// exhaustive evaluations of the real code over finite domains (bounded stand-ins, labelled)
	var exhaustive []map[string]interface{}
	if c := cfg[prop]; c != nil {
		for _, er := range c.Exhaustive {
			res := runExhaustive(repo, er, tmp)
			exhaustive = append(exhaustive, res)
			if ok, _ := res["ok"].(bool); !ok {
				path := writeReplay(prop, "exhaustive:"+er.File, map[string]interface{}{"property": prop, "obligation": "exhaustive:" + er.File, "kind": "exhaustive", "domain": er.Domain, "output": res["output"], "command": res["command"]})
				violations = append(violations, fmt.Sprintf("VIOLATION property=%s replay=%s", prop, path))
				fmt.Fprintf(os.Stderr, "  exhaustive evaluation failed: %s\n", er.File)
			}
		}
	}
	sort.Strings(termUnproved)
	var tb []string
	for k := range trusted {
		tb = append(tb, k)
	}
	sort.Strings(tb)
	tb = append([]string{
		"golang.org/x/tools/go/ssa (v0.29.0) faithfully represents the code the Go compiler builds",
		"Go type safety (typed, field-split heap; no unsafe aliasing in the code under contract)",
		"SMT solvers z3 4.8.12 / z3 5.1.0 / cvc5 1.0.3 are sound",
		"slice and string lengths, capacities and offsets are at most 2^47",
		"govc's own translation (DESIGN.md §2): goroutine spawns not followed, channels/select/non-local maps havocked, float64 is IEEE-754 binary64 (SMT FloatingPoint), float32 uninterpreted",
	}, tb...)
	samples := []interface{}{}
	for i, r := range records {
		if i >= 12 {
			break
		}
		samples = append(samples, r)
	}
	if len(samples) == 0 {
		samples = append(samples, map[string]string{"note": "no obligations"})
	}
	perBackend := map[string]int{}
	solver.mu.Lock()
	for k, v := range solver.perSolver {
		perBackend[k] = v
	}
	solverSecs := solver.solverSecs
	solver.mu.Unlock()
	cmdline := "/verif/bin/govc check " + prop + " --tier " + *tier
	ev := map[string]interface{}{
		"property_id": prop,
		"tier":        *tier,
		"seed":        seed,
		"level":       "proof",
		"wall_s":      time.Since(t0).Seconds(),
		"violations":  len(violations),
		"coverage": map[string]interface{}{
			"obligations":              nObl,
			"discharged":               nDis,
			"checker_cmd":              cmdline,
			"trusted_base":             tb,
			"samples":                  samples,
			"functions_under_contract": funcsInfo,
			"per_backend_discharged":   perBackend,
			"solver_seconds":           solverSecs,
			"undecided":                sorted(undecidedHit),
			"new_undecided":            sorted(newUndecided),
			"known_findings":           sorted(knownHit),
			"bounded":                  bounded,
			"exhaustive_runs":          exhaustive,
			"termination_unproved":     termUnproved,
			"vacuity":                  map[string]int{"cover_queries": coverRun, "satisfiable": coverSat},
			"explanation":              "obligations/discharged count only the claimed set: obligations generated from /repo's current tree for this property, excluding those listed as undecided (never counted as proved) or as known findings",
		},
		"assumptions": tb,
	}
	data, _ := json.MarshalIndent(ev, "", " ")
	os.WriteFile(evidencePath, data, 0o644)
	fmt.Fprintf(os.Stderr, "%s %s: %d functions, %d/%d obligations discharged, %d undecided, %d known findings, %d new-undecided, %d violations, %.1fs\n",
		prop, *tier, len(jobs), nDis, nObl, len(undecidedHit), len(knownHit), len(newUndecided), len(violations), time.Since(t0).Seconds())
	if len(violations) > 0 {
		sort.Strings(violations)
		for _, l := range violations {
			fmt.Println(l)
		}
		os.Exit(1)
	}
	if nObl == 0 && !*writeBaseline {
		fmt.Fprintln(os.Stderr, "govc: vacuous check (no obligations)")
		os.Exit(2)
	}
}

func sorted(s []string) []string {
	if s == nil {
		return []string{}
	}
	sort.Strings(s)
	return s
}

func truncate(s string, n int) string {
	if len(s) > n {
		return s[:n] + "..."
	}
	return s
}

func writeReplay(prop, name string, data map[string]interface{}) string {
	dir := filepath.Join(envOr("VERIF_REPLAY_DIR", filepath.Join(verifDir, "replays")), prop)
	os.MkdirAll(dir, 0o755)
	path := filepath.Join(dir, sanitize(name)+".json")
	if len(filepath.Base(path)) > 200 {
		path = filepath.Join(dir, sanitize(name)[:180]+".json")
	}
	b, _ := json.MarshalIndent(data, "", " ")
	os.WriteFile(path, b, 0o644)
	return path
}

// runExhaustive injects a test file from /verif into a package of /repo by
// overlay and runs it; the test prints VERIF-EXHAUSTIVE-DONE cases=N failed=M.
func runExhaustive(repo string, er exhaustiveRun, tmp string) map[string]interface{} {
	res := map[string]interface{}{"file": er.File, "package": er.Pkg, "domain": er.Domain, "ok": false,
		"label": "exhaustive run of the real code over a finite domain; not a deduction and not counted in obligations/discharged"}
	src := filepath.Join(verifDir, er.File)
	ov := map[string]map[string]string{"Replace": {filepath.Join(repo, er.Pkg, "zz_verif_exhaustive_test.go"): src}}
	ovFile := filepath.Join(tmp, "exh-"+sanitize(er.File)+".json")
	ob, _ := json.Marshal(ov)
	os.WriteFile(ovFile, ob, 0o644)
	cmdline := fmt.Sprintf("cd %s && go test -v -overlay %s -vet=off -count=1 -timeout 300s -run '^TestVerifExhaustive$' ./%s/", repo, ovFile, er.Pkg)
	res["command"] = "go test -v -overlay <overlay> -vet=off -count=1 -timeout 300s -run '^TestVerifExhaustive$' ./" + er.Pkg + "/"
	ctx, cancel := context.WithTimeout(context.Background(), 400*time.Second)
	defer cancel()
	cmd := exec.CommandContext(ctx, "bash", "-c", cmdline)
	cmd.Env = append(os.Environ(), "GOFLAGS=-mod=mod", "GOPROXY=off", "GOSUMDB=off", "GOTOOLCHAIN=local")
	out, _ := cmd.CombinedOutput()
	var keep []string
	cases, failed := -1, -1
	for _, l := range strings.Split(string(out), "\n") {
		if strings.Contains(l, "VERIF-EXHAUSTIVE") || strings.HasPrefix(l, "panic:") || strings.HasPrefix(l, "FAIL") || strings.Contains(l, "cannot") {
			keep = append(keep, l)
		}
		if strings.Contains(l, "VERIF-EXHAUSTIVE-DONE") {
			fmt.Sscanf(l[strings.Index(l, "cases="):], "cases=%d failed=%d", &cases, &failed)
		}
	}
	res["cases"], res["failed"] = cases, failed
	res["output"] = truncate(strings.Join(keep, "\n"), 4000)
	res["ok"] = cases > 0 && failed == 0
	return res
}
