package main

import (
	"fmt"
	"go/types"
	"strings"
)

type LKind int

const (
	LScalar LKind = iota
	LSlice        // base, off, len, cap
	LString       // base, off, len
	LIface        // tag, ptr
	LStruct
	LArray
	LTuple
	LUnsupported
)

type Layout struct {
	Kind   LKind
	Sort   Sort  // scalar
	Int    *IntT // integer scalar
	IsPtr  bool  // Addr-sorted scalar (pointer, map, chan, func, unsafe.Pointer)
	Fields []*Layout
	Names  []string
	Elem   *Layout // array / slice element
	N      int64
	T      types.Type
	Named  *types.Named // for struct: defining named type (may be nil)
}

const maxArrayVal = 64

type layouts struct {
	ar    Arith
	cache map[types.Type]*Layout
}

func basicIntT(b *types.Basic) *IntT {
	switch b.Kind() {
	case types.Int8:
		return &IntT{8, true}
	case types.Int16:
		return &IntT{16, true}
	case types.Int32:
		return &IntT{32, true}
	case types.Int64, types.Int:
		return &IntT{64, true}
	case types.Uint8:
		return &IntT{8, false}
	case types.Uint16:
		return &IntT{16, false}
	case types.Uint32:
		return &IntT{32, false}
	case types.Uint64, types.Uint, types.Uintptr:
		return &IntT{64, false}
	case types.UntypedInt, types.UntypedRune:
		return &IntT{64, true}
	}
	return nil
}

func (ls *layouts) of(t types.Type) *Layout {
	if l, ok := ls.cache[t]; ok {
		return l
	}
	l := &Layout{T: t}
	ls.cache[t] = l // recursion guard (pointers break cycles anyway)
	switch u := t.Underlying().(type) {
	case *types.Basic:
		switch {
		case u.Info()&types.IsBoolean != 0:
			l.Sort = SBool
		case u.Info()&types.IsInteger != 0:
			it := basicIntT(u)
			l.Int = it
			l.Sort = ls.ar.sort(*it)
		case u.Info()&types.IsFloat != 0:
			l.Sort = SF64
		case u.Info()&types.IsString != 0:
			l.Kind = LString
		case u.Kind() == types.UnsafePointer:
			l.Sort = SAddr
			l.IsPtr = true
		case u.Kind() == types.Invalid:
			// unused component of a range/next tuple: a dummy boolean
			l.Sort = SBool
		case u.Kind() == types.UntypedNil:
			l.Sort = SAddr
			l.IsPtr = true
		default:
			l.Kind = LUnsupported
		}
	case *types.Pointer, *types.Map, *types.Chan, *types.Signature:
		l.Sort = SAddr
		l.IsPtr = true
	case *types.Slice:
		l.Kind = LSlice
		l.Elem = ls.of(u.Elem())
	case *types.Interface:
		l.Kind = LIface
	case *types.Struct:
		l.Kind = LStruct
		if n, ok := t.(*types.Named); ok {
			l.Named = n
		} else if a, ok := t.(*types.Alias); ok {
			if n, ok := types.Unalias(a).(*types.Named); ok {
				l.Named = n
			}
		}
		for i := 0; i < u.NumFields(); i++ {
			l.Fields = append(l.Fields, ls.of(u.Field(i).Type()))
			l.Names = append(l.Names, u.Field(i).Name())
		}
	case *types.Array:
		l.Kind = LArray
		l.N = u.Len()
		l.Elem = ls.of(u.Elem())
	case *types.Tuple:
		l.Kind = LTuple
		for i := 0; i < u.Len(); i++ {
			l.Fields = append(l.Fields, ls.of(u.At(i).Type()))
			l.Names = append(l.Names, u.At(i).Name())
		}
	default:
		l.Kind = LUnsupported
	}
	return l
}

// Val is a symbolic value: a scalar SMT term or a tuple of components.
type Val struct {
	T string
	C []*Val
}

func sv(t string) *Val { return &Val{T: t} }

func (v *Val) String() string {
	if v == nil {
		return "<nil>"
	}
	if v.C == nil {
		return v.T
	}
	s := []string{}
	for _, c := range v.C {
		s = append(s, c.String())
	}
	return "{" + strings.Join(s, ", ") + "}"
}

// component sorts of composite leaves
func (ls *layouts) sliceSorts() []Sort {
	return []Sort{SAddr, ls.ar.idxSort(), ls.ar.idxSort(), ls.ar.idxSort()}
}
func (ls *layouts) stringSorts() []Sort { return []Sort{SAddr, ls.ar.idxSort(), ls.ar.idxSort()} }
func ifaceSorts() []Sort                { return []Sort{SInt, SAddr} }

func (ls *layouts) zeroScalar(l *Layout) string {
	switch {
	case l.Sort == SBool:
		return "false"
	case l.Int != nil:
		return ls.ar.litI(*l.Int, 0)
	case l.Sort == SAddr:
		return "nil"
	case l.Sort == SF64:
		return "f64zero"
	case l.Sort == SInt:
		return "0"
	}
	panic("zeroScalar: " + string(l.Sort))
}

func zeroOfSort(ar Arith, s Sort) string {
	switch s {
	case SBool:
		return "false"
	case SAddr:
		return "nil"
	case SF64:
		return "f64zero"
	case SInt:
		return "0"
	}
	// bit vector
	var n int
	fmt.Sscanf(string(s), "(_ BitVec %d)", &n)
	return fmt.Sprintf("(_ bv0 %d)", n)
}

func (ls *layouts) zero(l *Layout) *Val {
	idx0 := ls.ar.litI(IntT{64, true}, 0)
	switch l.Kind {
	case LScalar:
		return sv(ls.zeroScalar(l))
	case LSlice:
		return &Val{C: []*Val{sv("nil"), sv(idx0), sv(idx0), sv(idx0)}}
	case LString:
		return &Val{C: []*Val{sv("nil"), sv(idx0), sv(idx0)}}
	case LIface:
		return &Val{C: []*Val{sv("0"), sv("nil")}}
	case LStruct, LTuple:
		v := &Val{C: []*Val{}}
		for _, f := range l.Fields {
			v.C = append(v.C, ls.zero(f))
		}
		return v
	case LArray:
		if l.N > maxArrayVal {
			panic(unsupported("large array value"))
		}
		v := &Val{C: []*Val{}}
		for i := int64(0); i < l.N; i++ {
			v.C = append(v.C, ls.zero(l.Elem))
		}
		return v
	}
	panic(unsupported("zero of unsupported type " + l.T.String()))
}

type unsupportedErr struct{ msg string }

func (u unsupportedErr) Error() string { return "unsupported: " + u.msg }
func unsupported(msg string) error     { return unsupportedErr{msg} }

// leafSorts enumerates the scalar component sorts of a layout in order.
func (ls *layouts) compSorts(l *Layout) []Sort {
	switch l.Kind {
	case LScalar:
		return []Sort{l.Sort}
	case LSlice:
		return ls.sliceSorts()
	case LString:
		return ls.stringSorts()
	case LIface:
		return ifaceSorts()
	}
	return nil
}

// mapVal applies f to corresponding scalar leaves of values with layout l.
func (ls *layouts) zip(l *Layout, vs []*Val, f func(s Sort, ts []string) string) *Val {
	switch l.Kind {
	case LScalar:
		ts := make([]string, len(vs))
		for i, v := range vs {
			ts[i] = v.T
		}
		return sv(f(l.Sort, ts))
	case LSlice, LString, LIface:
		sorts := ls.compSorts(l)
		out := &Val{C: make([]*Val, len(sorts))}
		for k, s := range sorts {
			ts := make([]string, len(vs))
			for i, v := range vs {
				ts[i] = v.C[k].T
			}
			out.C[k] = sv(f(s, ts))
		}
		return out
	case LStruct, LTuple:
		out := &Val{C: make([]*Val, len(l.Fields))}
		for k, fl := range l.Fields {
			sub := make([]*Val, len(vs))
			for i, v := range vs {
				sub[i] = v.C[k]
			}
			out.C[k] = ls.zip(fl, sub, f)
		}
		return out
	case LArray:
		if l.N > maxArrayVal {
			panic(unsupported("large array value"))
		}
		out := &Val{C: make([]*Val, l.N)}
		for k := int64(0); k < l.N; k++ {
			sub := make([]*Val, len(vs))
			for i, v := range vs {
				sub[i] = v.C[k]
			}
			out.C[k] = ls.zip(l.Elem, sub, f)
		}
		return out
	}
	panic(unsupported("zip of unsupported type " + l.T.String()))
}

func typeShort(n *types.Named) string {
	p := ""
	if n.Obj().Pkg() != nil {
		p = n.Obj().Pkg().Name() + "_"
	}
	return p + n.Obj().Name()
}
