package main

import (
	"fmt"
	"sort"
	"strings"
)

type HeapBase struct {
	name string
	ctr  string
}

type HeapV struct {
	term  string
	bases []*HeapBase
	quant bool
}

type State struct {
	heaps  map[string]*HeapV // key: family#comp
	ctr    string
	ghost  map[string]string // ghost variables (held locks, call counters)
	events map[string]string // family -> id of the last havoc/merge event (for heap keys not yet materialised)
	dirty  map[string]bool   // type key -> an invariant field of that type was stored to since the last havoc of it
}

type heapEvent struct {
	ctr     string   // havoc event: allocation counter at the havoc
	parents []string // merge event: parent events ("" = function entry)
	conds   []string
}

func (s *State) clone() *State {
	n := &State{heaps: make(map[string]*HeapV, len(s.heaps)), ctr: s.ctr, ghost: make(map[string]string, len(s.ghost)), events: make(map[string]string, len(s.events))}
	for k, v := range s.heaps {
		n.heaps[k] = v
	}
	for k, v := range s.events {
		n.events[k] = v
	}
	if len(s.dirty) > 0 {
		n.dirty = make(map[string]bool, len(s.dirty))
		for k, v := range s.dirty {
			n.dirty[k] = v
		}
	}
	for k, v := range s.ghost {
		n.ghost[k] = v
	}
	return n
}

func arraySort(elem Sort) Sort { return Sort("(Array Addr " + string(elem) + ")") }

// heapSort returns the element sort of a heap key.
func (ex *Exec) heapSort(key string) Sort {
	if s, ok := ex.heapSorts[key]; ok {
		return s
	}
	panic("unknown heap sort for " + key)
}

func (ex *Exec) pKey(class string) string {
	key := "P:" + class + "#0"
	if _, ok := ex.heapSorts[key]; !ok {
		var s Sort
		switch class {
		case "Bool":
			s = SBool
		case "Addr":
			s = SAddr
		case "Int":
			s = SInt
		case "F64":
			s = SF64
		default:
			var n int
			fmt.Sscanf(class, "bv%d", &n)
			s = ex.ar.sort(IntT{n, false})
		}
		ex.heapSorts[key] = s
	}
	return key
}

func (ex *Exec) hKey(family string, comp int, s Sort) string {
	key := fmt.Sprintf("%s#%d", family, comp)
	if _, ok := ex.heapSorts[key]; !ok {
		ex.heapSorts[key] = s
	}
	return key
}

func famOfKey(key string) string { return key[:strings.LastIndex(key, "#")] }

func (ex *Exec) heap(st *State, key string) *HeapV {
	if hv, ok := st.heaps[key]; ok {
		return hv
	}
	return ex.lazyHeap(st.events[famOfKey(key)], key)
}

func (ex *Exec) lazyHeap(ev, key string) *HeapV {
	ck := ev + "|" + key
	if hv, ok := ex.initHeaps[ck]; ok {
		return hv
	}
	var hv *HeapV
	e := ex.events[ev]
	switch {
	case ev == "":
		name := ex.q.fresh("H0_"+key, arraySort(ex.heapSort(key)))
		hv = &HeapV{term: name, bases: []*HeapBase{{name, ex.ctr0}}}
	case e.parents == nil:
		name := ex.q.fresh("Hh_"+key, arraySort(ex.heapSort(key)))
		hv = &HeapV{term: name, bases: []*HeapBase{{name, e.ctr}}}
	default:
		vs := make([]*HeapV, len(e.parents))
		for i, p := range e.parents {
			vs[i] = ex.lazyHeap(p, key)
		}
		hv = ex.iteHeaps(key, vs, e.conds)
	}
	ex.initHeaps[ck] = hv
	return hv
}

func (ex *Exec) iteHeaps(key string, vs []*HeapV, conds []string) *HeapV {
	same := true
	for _, v := range vs {
		if v.term != vs[0].term {
			same = false
		}
	}
	if same {
		return vs[0]
	}
	t := vs[len(vs)-1].term
	for i := len(vs) - 2; i >= 0; i-- {
		t = ite(conds[i], vs[i].term, t)
	}
	hv := &HeapV{term: ex.q.def("Hm_"+key, arraySort(ex.heapSort(key)), t)}
	seen := map[string]bool{}
	for _, v := range vs {
		for _, b := range v.bases {
			if !seen[b.name] {
				seen[b.name] = true
				hv.bases = append(hv.bases, b)
			}
		}
	}
	return hv
}

func (ex *Exec) loadLeaf(st *State, key string, addr string, facts bool) string {
	s := ex.heapSort(key)
	hv := ex.heap(st, key)
	r := ex.q.def("ld", s, "(select "+hv.term+" "+addr+")")
	if facts {
		for _, b := range hv.bases {
			fk := b.name + "@" + addr
			if ex.factDone[fk] {
				continue
			}
			ex.factDone[fk] = true
			ex.q.assume(implies("(>= (rid "+addr+") "+b.ctr+")", eq("(select "+b.name+" "+addr+")", zeroOfSort(ex.ar, s))))
			if s == SAddr {
				ex.q.assume("(< (rid (select " + b.name + " " + addr + ")) " + b.ctr + ")")
			}
		}
		if s == SAddr && len(hv.bases) != 1 {
			ex.q.assume("(< (rid " + r + ") " + st.ctr + ")")
		}
	}
	return r
}

func (ex *Exec) storeLeaf(st *State, key string, addr, v string) {
	s := ex.heapSort(key)
	hv := ex.heap(st, key)
	t := ex.q.def("H_"+key, arraySort(s), "(store "+hv.term+" "+addr+" "+v+")")
	st.heaps[key] = &HeapV{term: t, bases: hv.bases}
}

func (ex *Exec) havocFamilies(st *State, fams map[string]bool) {
	// the callee / loop may allocate: advance the counter first
	nc := ex.q.fresh("ctr", SInt)
	ex.q.assume("(>= " + nc + " " + st.ctr + ")")
	st.ctr = nc
	var names []string
	for f := range fams {
		names = append(names, f)
	}
	sort.Strings(names)
	ex.nEvents++
	ev := fmt.Sprintf("hv%d", ex.nEvents)
	ex.events[ev] = &heapEvent{ctr: nc}
	for _, f := range names {
		for k := range st.heaps {
			if famOfKey(k) == f {
				delete(st.heaps, k)
			}
		}
		st.events[f] = ev
		ex.havocked[f] = true
		if strings.HasPrefix(f, "H:") && st.dirty != nil {
			// H:<typeShort>.<field>
			t := f[2:]
			if i := strings.LastIndex(t, "."); i >= 0 {
				delete(st.dirty, t[:i])
			}
		}
	}
}

// merge joins states along edges with conditions conds (conds[i] is the
// condition under which state i is the incoming one; the last is default).
func (ex *Exec) merge(states []*State, conds []string) *State {
	if len(states) == 1 {
		return states[0].clone()
	}
	out := &State{heaps: map[string]*HeapV{}, ghost: map[string]string{}, events: map[string]string{}}
	keys := map[string]bool{}
	fams := map[string]bool{}
	for _, s := range states {
		for k := range s.heaps {
			keys[k] = true
		}
		for f := range s.events {
			fams[f] = true
		}
	}
	var ks []string
	for k := range keys {
		ks = append(ks, k)
	}
	sort.Strings(ks)
	for _, k := range ks {
		vs := make([]*HeapV, len(states))
		for i, s := range states {
			vs[i] = ex.heap(s, k)
		}
		out.heaps[k] = ex.iteHeaps(k, vs, conds)
	}
	var fs []string
	for f := range fams {
		fs = append(fs, f)
	}
	sort.Strings(fs)
	for _, f := range fs {
		same := true
		for _, s := range states {
			if s.events[f] != states[0].events[f] {
				same = false
			}
		}
		if same {
			out.events[f] = states[0].events[f]
			continue
		}
		ex.nEvents++
		ev := fmt.Sprintf("mg%d", ex.nEvents)
		he := &heapEvent{conds: conds}
		for _, s := range states {
			he.parents = append(he.parents, s.events[f])
		}
		ex.events[ev] = he
		out.events[f] = ev
	}
	for _, s := range states {
		for k, v := range s.dirty {
			if v {
				if out.dirty == nil {
					out.dirty = map[string]bool{}
				}
				out.dirty[k] = true
			}
		}
	}
	// counter
	c := states[len(states)-1].ctr
	for i := len(states) - 2; i >= 0; i-- {
		c = ite(conds[i], states[i].ctr, c)
	}
	out.ctr = ex.q.def("ctr", SInt, c)
	// ghost
	gk := map[string]bool{}
	for _, s := range states {
		for k := range s.ghost {
			gk[k] = true
		}
	}
	for k := range gk {
		var ts []string
		ok := true
		for _, s := range states {
			v, has := s.ghost[k]
			if !has && strings.HasPrefix(k, "called:") {
				v, has = "false", true
			}
			if !has && (strings.HasPrefix(k, "callres:") || strings.HasPrefix(k, "callarg:")) {
				// no call on this path: any value
				v, has = ex.q.fresh("nocall", Sort(k[strings.LastIndex(k, "|")+1:])), true
			}
			if !has {
				ok = false
				break
			}
			ts = append(ts, v)
		}
		if !ok {
			continue
		}
		t := ts[len(ts)-1]
		for i := len(ts) - 2; i >= 0; i-- {
			t = ite(conds[i], ts[i], t)
		}
		srt := SBool
		if i := strings.LastIndex(k, "|"); i >= 0 {
			srt = Sort(k[i+1:])
		}
		out.ghost[k] = ex.q.def("g", srt, t)
	}
	return out
}
