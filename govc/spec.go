package main

// Contract files: //@ lines in zz_verif_contracts.go (build tag verif) of each
// package, plus *.spec files for dependency packages (naza) under
// /verif/contracts/naza. See DESIGN.md §2.2.

import (
	"fmt"
	"os"
	"regexp"
	"strconv"
	"strings"
)

type Clause struct {
	Label    string // e.g. C11.len ; may be empty
	Src      string
	Expr     CExpr
	Line     int
	File     string
	Thor     bool   // thorough tier only
	HeadOnly bool   // loop exit clause: only the exit out of the loop header (condition false)
	Mode     string // "int": discharge in the integer encoding first
	Slow     bool   // needs several seconds: gets six times the per-obligation budget
	NoAssume bool   // `checkonly:` point assertion: proved, but not assumed afterwards (the other queries of the function stay as they were)
}

type LoopSpec struct {
	Invariants []*Clause
	Steps      []*Clause
	Exits      []*Clause // checked on every edge that leaves the loop
	Decreases  *Clause
	Frame      []*Clause // loop n preserves <heap-facts> (quantified frame facts, proved at back edge)
	Unroll     int
	Fills      []*FillSpec // loop n fills X[lo:hi] with V : exact heap summary of a memset-style loop
}

type FillSpec struct {
	Slice, Lo, Hi, Val CExpr
	Src                string
	Thor               bool
}

type PureFn struct {
	Name   string
	Params []string // names
	PTypes []string // textual types
	RType  string
	Body   CExpr
	Pkg    string
}

type FuncSpec struct {
	Pkg        string // package path
	Name       string // SSA-relative name: F, (T).M, (*T).M, F$1
	Mode       string // bv | int
	Inline     bool
	Modular    bool
	Opaque     bool // callee side: never executed in place by callers, only its contract is used
	Trusted    bool // body not verified; contract assumed (listed in evidence)
	Requires   []*Clause
	Ensures    []*Clause
	Asserts    []*PointAssert // assert after "<statement text>" [label] expr
	SafetyProp string         // "safety Cnn": unlabelled obligations of this function belong to that property's sweep only
	Assumes    []*Clause      // "assumes": unchecked environment assumptions, assumed at entry and at every call
	RetSites   []*Clause      // "returns": like ensures, but evaluated at each return statement with the locals visible there
	Loops      map[int]*LoopSpec
	Lets       map[string]CExpr
	LetOrder   []string
	Props      []string
	Modifies   []string // heap names or "nothing"; empty = computed
	Pure       bool     // no heap modification: checked against computed Mod set
	Decr       *Clause
	StackBound int // maximal value of the decreases measure accepted from callers outside the recursion (0 = none)
	Bounded    int
	File       string
	Line       int
	NoPanic    bool // ensures: function body has no panic obligations by construction (used for trusted stubs)
	Skip       []string
}

// PointAssert: a clause checked right after the statement whose source text
// (whitespace-normalised) is Stmt; the statement must be unique in the function.
type PointAssert struct {
	Stmt   string
	Nth    int // 1-based occurrence of the statement text in the function (0 = must be unique)
	Clause *Clause
}

type TypeInv struct {
	Pkg, Type string
	Var       string
	Clause    *Clause
}

type Specs struct {
	Funcs  map[string]*FuncSpec // key: pkgpath + "." + name
	Pures  map[string]*PureFn   // key: pkgpath + "." + name ; also "" + name for global
	Types  map[string][]*TypeInv
	NonNil map[string]bool // "pkgpath.Type.field": the field never holds nil (checked at every store, assumed at every load)
	Files  []string
}

var labelRe = regexp.MustCompile(`^\[([A-Za-z0-9_.\-,]+)\]\s*`)
var pureRe = regexp.MustCompile(`^pure\s+([A-Za-z_][A-Za-z0-9_]*)\s*\(([^)]*)\)\s*([^=]*?)\s*=\s*(.*)$`)

var clauseKeywords = map[string]bool{"requires": true, "ensures": true, "loop": true, "mode": true, "inline": true,
	"modular": true, "modifies": true, "decreases": true, "let": true, "end": true, "func": true, "returns": true, "stackbound": true, "assert": true, "pure": true,
	"type": true, "props": true, "bounded": true, "trusted": true, "opaque": true, "assumes": true, "safety": true, "purefn": true, "package": true, "skip": true}

// extractSpecLines pulls the //@ lines out of a Go file (or takes every
// non-comment line of a .spec file).
func extractSpecLines(path string, data []byte) (lines []string, nums []int) {
	isSpec := strings.HasSuffix(path, ".spec")
	for i, l := range strings.Split(string(data), "\n") {
		t := strings.TrimSpace(l)
		if isSpec {
			if t == "" || strings.HasPrefix(t, "#") {
				continue
			}
			t = strings.TrimPrefix(t, "//@")
			lines = append(lines, strings.TrimSpace(t))
			nums = append(nums, i+1)
			continue
		}
		if strings.HasPrefix(t, "//@") {
			lines = append(lines, strings.TrimSpace(t[3:]))
			nums = append(nums, i+1)
		}
	}
	return
}

func stripTrailingComment(s string) string {
	// a trailing " // ..." comment inside a contract line
	if i := strings.Index(s, " // "); i >= 0 {
		return strings.TrimSpace(s[:i])
	}
	return s
}

func (sp *Specs) parseFile(path string, data []byte, pkgPath string) error {
	lines, nums := extractSpecLines(path, data)
	// join continuation lines
	var jl []string
	var jn []int
	for i, l := range lines {
		l = stripTrailingComment(l)
		if l == "" {
			continue
		}
		w := strings.Fields(l)[0]
		if !clauseKeywords[w] && len(jl) > 0 {
			jl[len(jl)-1] += " " + l
			continue
		}
		jl = append(jl, l)
		jn = append(jn, nums[i])
	}
	var cur *FuncSpec
	mkClause := func(src string, line int) (*Clause, error) {
		c := &Clause{Line: line, File: path}
		if m := labelRe.FindStringSubmatch(src); m != nil {
			c.Label = m[1]
			src = src[len(m[0]):]
		}
		if strings.HasPrefix(src, "thorough ") {
			c.Thor = true
			src = strings.TrimSpace(strings.TrimPrefix(src, "thorough "))
		}
		if strings.HasPrefix(src, "checkonly: ") {
			c.NoAssume = true
			src = strings.TrimSpace(strings.TrimPrefix(src, "checkonly: "))
		}
		if strings.HasPrefix(src, "slow: ") {
			c.Slow = true
			src = strings.TrimSpace(strings.TrimPrefix(src, "slow: "))
		}
		if strings.HasPrefix(src, "int: ") {
			c.Mode = "int"
			src = strings.TrimSpace(strings.TrimPrefix(src, "int: "))
		}
		c.Src = src
		e, err := parseCExpr(src)
		if err != nil {
			return nil, fmt.Errorf("%s:%d: %v", path, line, err)
		}
		c.Expr = e
		return c, nil
	}
	for i, l := range jl {
		line := jn[i]
		w := strings.Fields(l)
		rest := strings.TrimSpace(strings.TrimPrefix(l, w[0]))
		switch w[0] {
		case "package":
			pkgPath = rest
		case "pure":
			m := pureRe.FindStringSubmatch(l)
			if m == nil {
				return fmt.Errorf("%s:%d: bad pure declaration", path, line)
			}
			pf := &PureFn{Name: m[1], RType: strings.TrimSpace(m[3]), Pkg: pkgPath}
			if strings.TrimSpace(m[2]) != "" {
				// params: "b []byte, i int" ; allow grouped names "a, b int"
				parts := strings.Split(m[2], ",")
				var pend []string
				for _, p := range parts {
					f := strings.Fields(strings.TrimSpace(p))
					if len(f) == 1 {
						pend = append(pend, f[0])
						continue
					}
					ty := strings.Join(f[1:], " ")
					for _, n := range pend {
						pf.Params = append(pf.Params, n)
						pf.PTypes = append(pf.PTypes, ty)
					}
					pend = nil
					pf.Params = append(pf.Params, f[0])
					pf.PTypes = append(pf.PTypes, ty)
				}
			}
			e, err := parseCExpr(m[4])
			if err != nil {
				return fmt.Errorf("%s:%d: %v", path, line, err)
			}
			pf.Body = e
			sp.Pures[pkgPath+"."+pf.Name] = pf
		case "type":
			// type T nonnil f1 f2 ...
			if len(w) >= 4 && w[2] == "nonnil" {
				for _, f := range w[3:] {
					sp.NonNil[pkgPath+"."+w[1]+"."+strings.TrimSuffix(f, ",")] = true
				}
				break
			}
			// type T invariant [label] expr   (receiver variable is "self")
			if len(w) < 4 || w[2] != "invariant" {
				return fmt.Errorf("%s:%d: bad type invariant", path, line)
			}
			src := strings.TrimSpace(strings.SplitN(l, "invariant", 2)[1])
			c, err := mkClause(src, line)
			if err != nil {
				return err
			}
			k := pkgPath + "." + w[1]
			sp.Types[k] = append(sp.Types[k], &TypeInv{Pkg: pkgPath, Type: w[1], Var: "self", Clause: c})
		case "func":
			if cur != nil {
				return fmt.Errorf("%s:%d: missing end before func", path, line)
			}
			cur = &FuncSpec{Pkg: pkgPath, Name: rest, Mode: "bv", Loops: map[int]*LoopSpec{}, Lets: map[string]CExpr{}, File: path, Line: line}
		case "end":
			if cur == nil {
				return fmt.Errorf("%s:%d: end without func", path, line)
			}
			k := cur.Pkg + "." + cur.Name
			if _, dup := sp.Funcs[k]; dup {
				return fmt.Errorf("%s:%d: duplicate contract for %s", path, line, k)
			}
			sp.Funcs[k] = cur
			cur = nil
		default:
			if cur == nil {
				return fmt.Errorf("%s:%d: clause outside func: %s", path, line, l)
			}
			switch w[0] {
			case "mode":
				cur.Mode = rest
			case "inline":
				cur.Inline = true
			case "modular":
				cur.Modular = true
			case "opaque":
				cur.Opaque = true
			case "safety":
				cur.SafetyProp = strings.TrimSpace(rest)
			case "trusted":
				cur.Trusted = true
			case "purefn":
				cur.Pure = true
			case "props":
				cur.Props = append(cur.Props, strings.Fields(rest)...)
			case "skip":
				cur.Skip = append(cur.Skip, strings.Fields(rest)...)
			case "bounded":
				n, err := strconv.Atoi(strings.TrimPrefix(strings.TrimSpace(rest), "unroll "))
				if err != nil {
					return fmt.Errorf("%s:%d: bad bounded clause", path, line)
				}
				cur.Bounded = n
			case "modifies":
				cur.Modifies = append(cur.Modifies, strings.Fields(strings.ReplaceAll(rest, ",", " "))...)
			case "let":
				parts := strings.SplitN(rest, "=", 2)
				if len(parts) != 2 {
					return fmt.Errorf("%s:%d: bad let", path, line)
				}
				e, err := parseCExpr(strings.TrimSpace(parts[1]))
				if err != nil {
					return fmt.Errorf("%s:%d: %v", path, line, err)
				}
				n := strings.TrimSpace(parts[0])
				cur.Lets[n] = e
				cur.LetOrder = append(cur.LetOrder, n)
			case "assert":
				// assert after "stmt text" [label] expr
				r := strings.TrimSpace(rest)
				if !strings.HasPrefix(r, "after ") {
					return fmt.Errorf("%s:%d: assert needs: after \"<statement>\" expr", path, line)
				}
				r = strings.TrimSpace(strings.TrimPrefix(r, "after "))
				if !strings.HasPrefix(r, "\"") {
					return fmt.Errorf("%s:%d: assert: quoted statement text expected", path, line)
				}
				end := strings.Index(r[1:], "\" ")
				if e2 := strings.Index(r[1:], "\"@"); e2 >= 0 && (end < 0 || e2 < end) {
					end = e2
				}
				if end < 0 {
					return fmt.Errorf("%s:%d: assert: unterminated statement text", path, line)
				}
				stmt := r[1 : 1+end]
				restc := strings.TrimSpace(r[end+2:])
				nth := 0
				if strings.HasPrefix(restc, "@") {
					f := strings.Fields(restc)[0]
					nth, _ = strconv.Atoi(f[1:])
					restc = strings.TrimSpace(strings.TrimPrefix(restc, f))
				}
				c, err := mkClause(restc, line)
				if err != nil {
					return err
				}
				cur.Asserts = append(cur.Asserts, &PointAssert{Stmt: strings.Join(strings.Fields(stmt), " "), Nth: nth, Clause: c})
			case "stackbound":
				n, err := strconv.Atoi(strings.TrimSpace(rest))
				if err != nil {
					return fmt.Errorf("%s:%d: bad stackbound", path, line)
				}
				cur.StackBound = n
			case "returns":
				c, err := mkClause(rest, line)
				if err != nil {
					return err
				}
				cur.RetSites = append(cur.RetSites, c)
			case "assumes":
				// an assumption about the machine/environment (e.g. a counter never reaches 2^40): assumed at
				// entry and at every call, never checked, always listed in the evidence
				c, err := mkClause(rest, line)
				if err != nil {
					return err
				}
				cur.Assumes = append(cur.Assumes, c)
			case "requires", "ensures", "decreases":
				c, err := mkClause(rest, line)
				if err != nil {
					return err
				}
				switch w[0] {
				case "requires":
					cur.Requires = append(cur.Requires, c)
				case "ensures":
					cur.Ensures = append(cur.Ensures, c)
				default:
					cur.Decr = c
				}
			case "loop":
				if len(w) < 3 {
					return fmt.Errorf("%s:%d: bad loop clause", path, line)
				}
				n, err := strconv.Atoi(w[1])
				if err != nil {
					return fmt.Errorf("%s:%d: bad loop ordinal", path, line)
				}
				ls := cur.Loops[n]
				if ls == nil {
					ls = &LoopSpec{}
					cur.Loops[n] = ls
				}
				src := strings.TrimSpace(strings.SplitN(l, w[2], 2)[1])
				if w[2] == "unroll" {
					ls.Unroll, _ = strconv.Atoi(src)
					break
				}
				if w[2] == "fills" {
					thorFill := false
					if strings.HasPrefix(src, "thorough ") {
						thorFill = true
						src = strings.TrimPrefix(src, "thorough ")
					}
					parts := strings.SplitN(src, " with ", 2)
					if len(parts) != 2 {
						return fmt.Errorf("%s:%d: bad fills clause", path, line)
					}
					se, err := parseCExpr(strings.TrimSpace(parts[0]))
					if err != nil {
						return fmt.Errorf("%s:%d: %v", path, line, err)
					}
					sl, ok := se.(*CSlice)
					if !ok || sl.Lo == nil || sl.Hi == nil {
						return fmt.Errorf("%s:%d: fills needs X[lo:hi]", path, line)
					}
					ve, err := parseCExpr(strings.TrimSpace(parts[1]))
					if err != nil {
						return fmt.Errorf("%s:%d: %v", path, line, err)
					}
					ls.Fills = append(ls.Fills, &FillSpec{Slice: sl.X, Lo: sl.Lo, Hi: sl.Hi, Val: ve, Src: src, Thor: thorFill})
					break
				}
				c, err := mkClause(src, line)
				if err != nil {
					return err
				}
				switch w[2] {
				case "invariant":
					ls.Invariants = append(ls.Invariants, c)
				case "step":
					ls.Steps = append(ls.Steps, c)
				case "exit":
					ls.Exits = append(ls.Exits, c)
				case "condexit":
					// like exit, but only for the exit taken when the loop condition (evaluated in the loop
					// header) is false; break/return edges out of the body are not constrained
					c.HeadOnly = true
					ls.Exits = append(ls.Exits, c)
				case "decreases":
					ls.Decreases = c
				case "preserves":
					ls.Frame = append(ls.Frame, c)
				default:
					return fmt.Errorf("%s:%d: unknown loop clause %s", path, line, w[2])
				}
			default:
				return fmt.Errorf("%s:%d: unknown clause %q", path, line, w[0])
			}
		}
	}
	if cur != nil {
		return fmt.Errorf("%s: missing end for func %s", path, cur.Name)
	}
	sp.Files = append(sp.Files, path)
	return nil
}

func newSpecs() *Specs {
	return &Specs{Funcs: map[string]*FuncSpec{}, Pures: map[string]*PureFn{}, Types: map[string][]*TypeInv{}, NonNil: map[string]bool{}}
}

func (sp *Specs) loadFile(path, pkgPath string) error {
	data, err := os.ReadFile(path)
	if err != nil {
		return err
	}
	return sp.parseFile(path, data, pkgPath)
}
