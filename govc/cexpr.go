package main

// Contract expression language: Go expression syntax plus
//   a ==> b            implication (lowest precedence, right associative)
//   c ? a : b          conditional
//   forall i in [lo,hi) :: body     bounded quantifier (also exists)
//   old(e), fresh(e), result, result0..resultN
// Parsed with go/scanner tokens and a small Pratt parser so that the
// extensions need no textual preprocessing.

import (
	"fmt"
	"go/scanner"
	"go/token"
	"math/big"
	"strconv"
	"strings"
)

type CExpr interface{ String() string }

type (
	CIdent struct{ Name string }
	CLit   struct {
		Int  *big.Int // integer literal
		Bool *bool
		Str  *string
		Flt  *float64 // floating-point literal
	}
	CSel struct {
		X    CExpr
		Name string
	}
	CIndex struct{ X, I CExpr }
	CSlice struct{ X, Lo, Hi CExpr }
	CCall  struct {
		Fun  string
		Args []CExpr
	}
	CUnary struct {
		Op string
		X  CExpr
	}
	CBinary struct {
		Op   string
		X, Y CExpr
	}
	CCond  struct{ C, A, B CExpr }
	CQuant struct {
		Forall bool
		Var    string
		Lo, Hi CExpr
		Body   CExpr
	}
	CStar struct{ X CExpr } // *p
	CConv struct {
		Type string // textual Go type, e.g. []byte, *Header
		X    CExpr
	}
)

func (e *CIdent) String() string { return e.Name }
func (e *CLit) String() string {
	switch {
	case e.Int != nil:
		return e.Int.String()
	case e.Bool != nil:
		return fmt.Sprint(*e.Bool)
	case e.Flt != nil:
		return strconv.FormatFloat(*e.Flt, 'g', -1, 64)
	default:
		return fmt.Sprintf("%q", *e.Str)
	}
}
func (e *CSel) String() string   { return e.X.String() + "." + e.Name }
func (e *CIndex) String() string { return e.X.String() + "[" + e.I.String() + "]" }
func (e *CSlice) String() string {
	lo, hi := "", ""
	if e.Lo != nil {
		lo = e.Lo.String()
	}
	if e.Hi != nil {
		hi = e.Hi.String()
	}
	return e.X.String() + "[" + lo + ":" + hi + "]"
}
func (e *CCall) String() string {
	a := []string{}
	for _, x := range e.Args {
		a = append(a, x.String())
	}
	return e.Fun + "(" + strings.Join(a, ", ") + ")"
}
func (e *CUnary) String() string  { return e.Op + e.X.String() }
func (e *CBinary) String() string { return "(" + e.X.String() + " " + e.Op + " " + e.Y.String() + ")" }
func (e *CCond) String() string {
	return "(" + e.C.String() + " ? " + e.A.String() + " : " + e.B.String() + ")"
}
func (e *CQuant) String() string {
	q := "exists"
	if e.Forall {
		q = "forall"
	}
	return fmt.Sprintf("(%s %s in [%s,%s) :: %s)", q, e.Var, e.Lo, e.Hi, e.Body)
}
func (e *CStar) String() string { return "*" + e.X.String() }
func (e *CConv) String() string { return e.Type + "(" + e.X.String() + ")" }

type ctok struct {
	tok token.Token
	lit string
	pos int
}

type cparser struct {
	toks []ctok
	i    int
	src  string
}

func parseCExpr(src string) (e CExpr, err error) {
	defer func() {
		if r := recover(); r != nil {
			err = fmt.Errorf("contract expression %q: %v", src, r)
		}
	}()
	fset := token.NewFileSet()
	f := fset.AddFile("", fset.Base(), len(src))
	var s scanner.Scanner
	s.Init(f, []byte(src), func(pos token.Position, msg string) {}, 0)
	p := &cparser{src: src}
	for {
		pos, tok, lit := s.Scan()
		if tok == token.EOF {
			break
		}
		if tok == token.SEMICOLON && lit == "\n" {
			continue
		}
		p.toks = append(p.toks, ctok{tok, lit, int(pos) - f.Base()})
	}
	e = p.parseImpl()
	if p.i != len(p.toks) {
		panic(fmt.Sprintf("unexpected token %q at %d", p.cur().String(), p.cur().pos))
	}
	return e, nil
}

func (t ctok) String() string {
	if t.lit != "" {
		return t.lit
	}
	return t.tok.String()
}

func (p *cparser) cur() ctok {
	if p.i < len(p.toks) {
		return p.toks[p.i]
	}
	return ctok{tok: token.EOF}
}
func (p *cparser) peek(k int) ctok {
	if p.i+k < len(p.toks) {
		return p.toks[p.i+k]
	}
	return ctok{tok: token.EOF}
}
func (p *cparser) next() ctok { t := p.cur(); p.i++; return t }
func (p *cparser) expect(t token.Token) ctok {
	c := p.next()
	if c.tok != t {
		panic(fmt.Sprintf("expected %s, found %q at %d", t, c.String(), c.pos))
	}
	return c
}

// isImplies: tokens "==" ">" adjacent
func (p *cparser) isImplies() bool {
	a, b := p.cur(), p.peek(1)
	return a.tok == token.EQL && b.tok == token.GTR && b.pos == a.pos+2
}

func (p *cparser) isIllegalQ() bool {
	c := p.cur()
	return c.tok == token.ILLEGAL && c.lit == "?"
}

// impl := cond [ '==>' impl ]
func (p *cparser) parseImpl() CExpr {
	l := p.parseCond()
	if p.isImplies() {
		p.i += 2
		r := p.parseImpl()
		return &CBinary{"==>", l, r}
	}
	return l
}

// cond := or [ '?' impl ':' impl ]
func (p *cparser) parseCond() CExpr {
	c := p.parseBin(1)
	if p.isIllegalQ() {
		p.i++
		a := p.parseImpl()
		p.expect(token.COLON)
		b := p.parseImpl()
		return &CCond{c, a, b}
	}
	return c
}

func (p *cparser) parseBin(prec int) CExpr {
	l := p.parseUnary()
	for {
		if p.isImplies() {
			return l
		}
		t := p.cur()
		tp := t.tok.Precedence()
		if !t.tok.IsOperator() || tp < prec || tp == 0 {
			return l
		}
		p.i++
		r := p.parseBin(tp + 1)
		l = &CBinary{t.tok.String(), l, r}
	}
}

func (p *cparser) parseUnary() CExpr {
	t := p.cur()
	switch t.tok {
	case token.SUB, token.NOT, token.XOR, token.ADD, token.AND:
		p.i++
		return &CUnary{t.tok.String(), p.parseUnary()}
	case token.MUL:
		p.i++
		return &CStar{p.parseUnary()}
	}
	return p.parsePostfix(p.parsePrimary())
}

func (p *cparser) parseTypeText() (string, bool) {
	// recognise leading type syntax for conversions: []T, *T(not here), [N]T
	save := p.i
	if p.cur().tok == token.LBRACK {
		s := "["
		p.i++
		if p.cur().tok == token.INT {
			s += p.next().lit
		}
		if p.cur().tok != token.RBRACK {
			p.i = save
			return "", false
		}
		p.i++
		s += "]"
		rest, ok := p.parseTypeText()
		if ok {
			return s + rest, true
		}
		if p.cur().tok == token.IDENT {
			s += p.next().lit
			if p.cur().tok == token.PERIOD && p.peek(1).tok == token.IDENT {
				p.i++
				s += "." + p.next().lit
			}
			return s, true
		}
		p.i = save
		return "", false
	}
	return "", false
}

func (p *cparser) parsePrimary() CExpr {
	t := p.cur()
	switch t.tok {
	case token.INT:
		p.i++
		n := new(big.Int)
		if _, ok := n.SetString(strings.ReplaceAll(t.lit, "_", ""), 0); !ok {
			panic("bad int literal " + t.lit)
		}
		return &CLit{Int: n}
	case token.FLOAT:
		p.i++
		f, err := strconv.ParseFloat(t.lit, 64)
		if err != nil {
			panic("bad float literal " + t.lit)
		}
		return &CLit{Flt: &f}
	case token.CHAR:
		p.i++
		r := []rune(t.lit[1 : len(t.lit)-1])
		if len(r) == 2 && r[0] == '\\' {
			switch r[1] {
			case 'n':
				return &CLit{Int: big.NewInt(10)}
			case 'r':
				return &CLit{Int: big.NewInt(13)}
			case 't':
				return &CLit{Int: big.NewInt(9)}
			case '0':
				return &CLit{Int: big.NewInt(0)}
			}
		}
		return &CLit{Int: big.NewInt(int64(r[0]))}
	case token.STRING:
		p.i++
		s := t.lit[1 : len(t.lit)-1]
		return &CLit{Str: &s}
	case token.LPAREN:
		p.i++
		e := p.parseImpl()
		p.expect(token.RPAREN)
		return e
	case token.LBRACK:
		if ty, ok := p.parseTypeText(); ok {
			p.expect(token.LPAREN)
			x := p.parseImpl()
			p.expect(token.RPAREN)
			return &CConv{ty, x}
		}
	case token.IDENT:
		if c := p.cur(); c.tok == token.IDENT && (c.lit == "forall" || c.lit == "exists") && p.peek(1).tok == token.IDENT && p.peek(2).tok == token.IDENT && p.peek(2).lit == "in" {
			p.i++
			v := p.next().lit
			p.i++ // in
			p.expect(token.LBRACK)
			lo := p.parseImpl()
			p.expect(token.COMMA)
			hi := p.parseImpl()
			p.expect(token.RPAREN)
			p.expect(token.COLON)
			p.expect(token.COLON)
			body := p.parseImpl()
			return &CQuant{c.lit == "forall", v, lo, hi, body}
		}
		p.i++
		switch t.lit {
		case "true", "false":
			b := t.lit == "true"
			return &CLit{Bool: &b}
		}
		return &CIdent{t.lit}
	}
	panic(fmt.Sprintf("unexpected token %q at %d", t.String(), t.pos))
}

func (p *cparser) parsePostfix(x CExpr) CExpr {
	for {
		t := p.cur()
		switch t.tok {
		case token.PERIOD:
			p.i++
			n := p.expect(token.IDENT)
			x = &CSel{x, n.lit}
		case token.LBRACK:
			p.i++
			var lo, hi CExpr
			if p.cur().tok != token.COLON {
				lo = p.parseImpl()
			}
			if p.cur().tok == token.COLON {
				p.i++
				if p.cur().tok != token.RBRACK {
					hi = p.parseImpl()
				}
				p.expect(token.RBRACK)
				x = &CSlice{x, lo, hi}
			} else {
				p.expect(token.RBRACK)
				x = &CIndex{x, lo}
			}
		case token.LPAREN:
			// call: function name is an identifier or pkg.Name selector
			name := ""
			switch f := x.(type) {
			case *CIdent:
				name = f.Name
			case *CSel:
				if id, ok := f.X.(*CIdent); ok {
					name = id.Name + "." + f.Name
				}
			}
			if name == "" {
				panic("call of non-identifier")
			}
			p.i++
			var args []CExpr
			for p.cur().tok != token.RPAREN {
				args = append(args, p.parseImpl())
				if p.cur().tok == token.COMMA {
					p.i++
				}
			}
			p.expect(token.RPAREN)
			x = &CCall{name, args}
		default:
			return x
		}
	}
}
