package main

import (
	"fmt"
	"go/types"
	"os"
	"strings"

	"golang.org/x/tools/go/ssa"
)

type FuncResult struct {
	Pinned map[string]bool // automatic invariant candidates fixed by the baseline (nil: free Houdini search)
	Key         string
	Fn          *ssa.Function
	Spec        *FuncSpec
	Ex          *Exec
	Obls        []*Obl
	Unsupported string
	ContractErr string
	Mode        string
	splitDone   bool
}

// verifyFunc generates the obligations of fn. Automatic loop-invariant
// candidates are pruned first (Houdini): candidates whose own entry/keep
// obligations are not discharged are switched off and generation is repeated,
// so every candidate that is assumed in the final run is also proved in it.
func (P *Prog) verifyFunc(fn *ssa.Function, thorough bool) (res *FuncResult) {
	return P.verifyFuncMode(fn, thorough, "")
}

// verifyFuncPinned: the automatic invariant candidates are exactly those recorded in the baseline
// (pinned, ids "loopN:auto:<cand>"): no Houdini search at check time, so the set of obligations does not
// depend on solver timing. A pinned candidate that no longer holds is an ordinary failed claimed obligation.
func (P *Prog) verifyFuncPinned(fn *ssa.Function, thorough bool, pinned map[string]bool) (res *FuncResult) {
	return P.verifyFuncPinnedMode(fn, thorough, pinned, "")
}

func (P *Prog) verifyFuncPinnedMode(fn *ssa.Function, thorough bool, pinned map[string]bool, mode string) (res *FuncResult) {
	off := map[string]bool{}
	res = P.verifyFuncOnce(fn, thorough, off, mode)
	res.Pinned = pinned
	if res.Ex == nil || len(res.Ex.autoSeen) == 0 || res.Unsupported != "" || res.ContractErr != "" {
		return res
	}
	for _, c := range res.Ex.autoSeen {
		if !pinned[c] {
			off[c] = true
		}
	}
	if len(off) == 0 {
		return res
	}
	res = P.verifyFuncOnce(fn, thorough, off, mode)
	res.Pinned = pinned
	return res
}

func (P *Prog) verifyFuncMode(fn *ssa.Function, thorough bool, mode string) (res *FuncResult) {
	off := map[string]bool{}
	for iter := 0; iter < 5; iter++ {
		res = P.verifyFuncOnce(fn, thorough, off, mode)
		if res.Ex == nil || len(res.Ex.autoSeen) == 0 || res.Unsupported != "" || res.ContractErr != "" {
			return res
		}
		var cand []*Obl
		for _, o := range res.Obls {
			if strings.Contains(o.Name, ":auto:") {
				cand = append(cand, o)
			}
		}
		if len(cand) == 0 {
			return res
		}
		tmp, _ := os.MkdirTemp("", "govc-houdini-")
		s := newSolver(tmp, 0, 6000, 8)
		s.quickMs = 3000
		s.fastOnly = true
		vs := s.solveAll(res.Ex, cand)
		os.RemoveAll(tmp)
		changed := false
		for _, v := range vs {
			if v.Status != "unsat" {
				// name: fn:kind:loopN:auto:cand#k
				parts := strings.SplitN(v.Obl.Name, ":loop", 2)
				c := "loop" + strings.SplitN(parts[1], "#", 2)[0]
				if !off[c] {
					off[c] = true
					changed = true
				}
			}
		}
		if !changed {
			return res
		}
	}
	return res
}

func (P *Prog) verifyFuncOnce(fn *ssa.Function, thorough bool, autoOff map[string]bool, mode string) (res *FuncResult) {
	// VC generation shares caches of the program (type ids, layouts, class
	// hierarchy): one function at a time; solving runs in parallel
	P.genMu.Lock()
	defer P.genMu.Unlock()
	key := P.keyOf[fn]
	spec := P.specs.Funcs[key]
	res = &FuncResult{Key: key, Fn: fn, Spec: spec, Mode: "bv"}
	if spec != nil && spec.Mode == "int" {
		res.Mode = "int"
	}
	ex := newExec(P, fn, spec, thorough, mode)
	if ex.ar.intMode {
		res.Mode = "int"
	} else {
		res.Mode = "bv"
	}
	ex.autoOff = autoOff
	res.Ex = ex
	defer func() {
		if r := recover(); r != nil {
			switch e := r.(type) {
			case unsupportedErr:
				res.Unsupported = e.msg
			case error:
				if strings.HasPrefix(e.Error(), "contract:") {
					res.ContractErr = e.Error()
				} else {
					panic(r)
				}
			default:
				panic(r)
			}
			res.Obls = ex.obls
		}
	}()
	fr := &Frame{ex: ex, fn: fn, spec: spec, vals: map[ssa.Value]*Val{}}
	st := &State{heaps: map[string]*HeapV{}, ctr: ex.ctr0, ghost: map[string]string{}, events: map[string]string{}}
	// parameters
	for _, p := range fn.Params {
		l := ex.ls.of(p.Type())
		if l.Kind == LUnsupported {
			panic(unsupported("parameter type " + p.Type().String()))
		}
		v := ex.freshVal(l, "p_"+p.Name())
		ex.assumeAllocated(l, v, ex.ctr0)
		if implicitNonNil(p) {
			ex.q.assume(not(eq(v.T, "nil")))
			ex.trusted[fmt.Sprintf("implicit precondition: pointer parameter %s of %s is non-nil (checked at analysed call sites)", p.Name(), shortKey(key))] = true
		}
		if _, isSig := p.Type().Underlying().(*types.Signature); isSig {
			ex.q.assume(not(eq(v.T, "nil")))
		}
		fr.vals[p] = v
		ex.inputs = append(ex.inputs, inputSym{p.Name(), p.Type(), v})
	}
	// preconditions
	fr.lookBlock, fr.lookAtEnd = fn.Blocks[0], false
	mkCtx := func(s *State) *Ctx {
		cx := fr.baseCtx(s)
		cx.lookup = func(name string) (*Val, types.Type, bool) { return fr.frameLookup(name, cx.state(), nil) }
		return cx
	}
	if fn.Signature.Recv() != nil || (len(fn.Params) > 0 && fn.Signature.Recv() == nil && strings.HasPrefix(fn.RelString(nil), "(")) {
		for _, ti := range P.typeInvsFor(fn) {
			cx := mkCtx(st)
			cx.vals["self"] = fr.vals[fn.Params[0]]
			cx.types["self"] = fn.Params[0].Type()
			if !isConstructorLike(fn) {
				ex.q.assume(cx.evalBool(ti.Clause.Expr))
			}
		}
	}
	if spec != nil {
		for _, c := range spec.Requires {
			cx := mkCtx(st)
			ex.q.assume(cx.evalBool(c.Expr))
		}
		for _, c := range spec.Assumes {
			cx := mkCtx(st)
			ex.q.assume(cx.evalBool(c.Expr))
			ex.trusted["assumed, not checked: "+shortKey(key)+": "+c.Src] = true
		}
	}
	// vacuity: the preconditions must be satisfiable
	fr.reach = map[*ssa.BasicBlock]string{}
	ex.obls = append(ex.obls, &Obl{Name: shortKey(key) + ":cover:requires#0", Kind: "cover", Pos: ex.q.pos(), Reach: "true", Cond: "false", Fn: key, Cover: true, Text: "preconditions satisfiable"})
	ret, out, retReach := fr.run("true", st)
	_ = ret
	if spec != nil || len(P.typeInvsFor(fn)) > 0 || P.returnsInvType(fn) {
		// postconditions at the merged exit
		var resTuple *Val
		if ret != nil {
			resTuple = ret
		}
		mkPost := func() *Ctx {
			cx := mkCtx(out)
			cx.old = fr.entrySt
			cx.goal = true
			// in postconditions a parameter name denotes its value at entry
			for _, p := range fn.Params {
				cx.vals[p.Name()] = fr.vals[p]
				cx.types[p.Name()] = p.Type()
			}
			if resTuple != nil && fn.Signature.Results().Len() > 0 {
				cx.setResult(fn, resTuple)
			}
			return cx
		}
		// environment of the return block for ghost-lemma locals
		for _, b := range fn.Blocks {
			if len(b.Instrs) > 0 {
				if _, ok := b.Instrs[len(b.Instrs)-1].(*ssa.Return); ok && fr.envOut[b] != nil {
					fr.lookBlock, fr.lookAtEnd = b, true
					fr.st = out
				}
			}
		}
		var lastCx *Ctx
		var lastSelf string
		addPost := func(kind, name string, c *Clause, cond string) {
			if cond == "true" {
				return
			}
			defer func() {
				if n := len(ex.obls); n > 0 && ex.obls[n-1].Kind == kind {
					ex.obls[n-1].Clause, ex.obls[n-1].ClCx, ex.obls[n-1].SelfIs = c.Expr, lastCx, lastSelf
				}
			}()
			o := &Obl{Name: shortKey(key) + ":" + kind + ":" + name + "#0", Kind: kind, Pos: ex.q.pos(), Reach: retReach, Cond: cond, Fn: key, Label: c.Label, Text: c.Src, Thor: c.Thor, Mode: c.Mode, Slow: c.Slow}
			ex.obls = append(ex.obls, o)
		}
		if spec != nil {
			for _, c := range spec.Ensures {
				if c.Thor && !thorough {
					continue
				}
				cx := mkPost()
				lastCx, lastSelf = cx, ""
				addPost("post", clauseName(c), c, cx.evalBool(c.Expr))
			}
		}
		for _, ti := range P.typeInvsFor(fn) {
			cx := mkPost()
			cx.vals["self"] = fr.vals[fn.Params[0]]
			cx.types["self"] = fn.Params[0].Type()
			if sp := P.pkgByPath[ti.Pkg]; sp != nil {
				cx.pkg = sp.Pkg
			}
			cx.spec = nil
			lastCx, lastSelf = cx, fn.Params[0].Name()
			addPost("objinv", clauseName(ti.Clause), ti.Clause, cx.evalBool(ti.Clause.Expr))
		}
		// constructors: a function returning a pointer to an invariant-carrying type establishes the invariant
		if res := fn.Signature.Results(); res.Len() == 1 && fn.Signature.Recv() == nil {
			if n := structNamed(res.At(0).Type()); n != nil {
				if _, isPtr := res.At(0).Type().Underlying().(*types.Pointer); isPtr {
					for _, ti := range P.specs.Types[typeKeyOf(n)] {
						cx := mkPost()
						if sp := P.pkgByPath[ti.Pkg]; sp != nil {
							cx.pkg = sp.Pkg
						}
						cx.spec = nil
						cx.vals["self"] = resTuple.C[0]
						cx.types["self"] = res.At(0).Type()
						addPost("objinv", "ctor:"+clauseName(ti.Clause), ti.Clause, implies(not(eq(resTuple.C[0].T, "nil")), cx.evalBool(ti.Clause.Expr)))
					}
				}
			}
		}
		// reachability of the exit (vacuity guard for postconditions)
		ex.obls = append(ex.obls, &Obl{Name: shortKey(key) + ":cover:exit#0", Kind: "cover", Pos: ex.q.pos(), Reach: retReach, Cond: "false", Fn: key, Cover: true, Text: "function exit reachable"})
	}
	if spec != nil {
		for _, c := range spec.RetSites {
			if (!c.Thor || thorough) && ex.retSiteHits[clauseName(c)] == 0 {
				panic(fmt.Errorf("contract: returns clause %q applies to no return statement", c.Src))
			}
		}
	}
	res.Obls = ex.obls
	return res
}

func isConstructorLike(fn *ssa.Function) bool { return false }

func shortKey(key string) string {
	key = strings.TrimPrefix(key, lalPrefix+"pkg/")
	key = strings.TrimPrefix(key, nazaPrefix+"pkg/")
	return key
}

// solveFunc discharges the obligations of one function: first in the
// function's primary encoding, then — for obligations that were neither
// proved nor refuted by a quantifier-free model — in the other exact
// encoding (DESIGN §2.3: both are exact semantics of the same program, so a
// proof in either one is a proof).
func (P *Prog) solveFunc(s *Solver, res *FuncResult, thorough bool, keep func(*Obl) bool) []*Verdict {
	return P.solveFuncBudget(s, res, thorough, keep, true)
}

// solveFuncBudget: deep=false restricts the effort per obligation to the
// cheap stages (used for contract-less functions of the sweeps, where an
// unproved obligation is expected to be a missing precondition rather than a
// hard proof).
func (P *Prog) solveFuncBudget(s *Solver, res *FuncResult, thorough bool, keep func(*Obl) bool, deep bool) []*Verdict {
	if deep && res.Fn != nil && !res.splitDone && instrCount(res.Fn) > 400 && !thorough {
		// very large functions: contract clauses get the full treatment, the
		// safety obligations only the cheap stages
		res.splitDone = true
		a := P.solveFuncBudget(s, res, thorough, func(o *Obl) bool { return (keep == nil || keep(o)) && (o.Label != "" || o.Cover) }, true)
		b := P.solveFuncBudget(s, res, thorough, func(o *Obl) bool { return (keep == nil || keep(o)) && o.Label == "" && !o.Cover }, false)
		return append(a, b...)
	}
	if !deep && !thorough {
		s2 := *s
		s2.fastOnly = true
		s2.quickMs = 1200
		s2.perSolver = s.perSolver
		sp := &s2
		return P.solveFuncInner(sp, res, thorough, keep, false)
	}
	return P.solveFuncInner(s, res, thorough, keep, true)
}

func (P *Prog) solveFuncInner(s *Solver, res *FuncResult, thorough bool, keep func(*Obl) bool, otherMode bool) []*Verdict {
	var obls []*Obl
	for _, o := range res.Obls {
		if keep == nil || keep(o) {
			obls = append(obls, o)
		}
	}
	if res.Ex == nil {
		return nil
	}
	other := "int"
	if res.Mode == "int" {
		other = "bv"
	}
	// clauses with a mode hint for the other encoding go there directly
	var first []*Obl
	vs := make([]*Verdict, len(obls))
	var open []*Verdict
	pos := map[*Obl]int{}
	for i, o := range obls {
		pos[o] = i
		if o.Mode == other && !o.Cover {
			vs[i] = &Verdict{Obl: o, Status: "deferred", Solver: "-"}
			open = append(open, vs[i])
		} else {
			first = append(first, o)
		}
	}
	for _, v := range s.solveAll(res.Ex, first) {
		vs[pos[v.Obl]] = v
		if v.Obl.Cover {
			continue
		}
		if v.Status == "timeout" || v.Status == "unknown" || v.Status == "error" {
			open = append(open, v)
		}
	}
	if len(open) == 0 || res.Fn == nil || !otherMode {
		return vs
	}
	var res2 *FuncResult
	if res.Pinned != nil {
		res2 = P.verifyFuncPinnedMode(res.Fn, thorough, res.Pinned, other)
	} else {
		res2 = P.verifyFuncMode(res.Fn, thorough, other)
	}
	if res2.Ex == nil || res2.Unsupported != "" || res2.ContractErr != "" {
		return vs
	}
	byName := map[string]*Obl{}
	for _, o := range res2.Obls {
		byName[o.Name] = o
	}
	var obls2 []*Obl
	var idx []*Verdict
	for _, v := range open {
		if o2, ok := byName[v.Obl.Name]; ok {
			obls2 = append(obls2, o2)
			idx = append(idx, v)
		}
	}
	vs2 := s.solveAll(res2.Ex, obls2)
	for i, v2 := range vs2 {
		// where a retry has to happen: in the other encoding
		idx[i].AltEx, idx[i].AltObl = res2.Ex, obls2[i]
		if v2.Status == "unsat" || idx[i].Status == "deferred" {
			idx[i].Status = v2.Status
			idx[i].Solver = v2.Solver + "[" + other + "]"
			idx[i].Seconds += v2.Seconds
			idx[i].Output = v2.Output
		}
	}
	return vs
}

func (P *Prog) returnsInvType(fn *ssa.Function) bool {
	res := fn.Signature.Results()
	if res.Len() != 1 || fn.Signature.Recv() != nil {
		return false
	}
	n := structNamed(res.At(0).Type())
	return n != nil && len(P.specs.Types[typeKeyOf(n)]) > 0
}
