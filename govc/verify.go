package main

import (
	"fmt"
	"go/types"
	"strings"

	"golang.org/x/tools/go/ssa"
)

type FuncResult struct {
	Key         string
	Fn          *ssa.Function
	Spec        *FuncSpec
	Ex          *Exec
	Obls        []*Obl
	Unsupported string
	ContractErr string
	Mode        string
}

func (P *Prog) verifyFunc(fn *ssa.Function, thorough bool) (res *FuncResult) {
	key := P.keyOf[fn]
	spec := P.specs.Funcs[key]
	res = &FuncResult{Key: key, Fn: fn, Spec: spec, Mode: "bv"}
	if spec != nil && spec.Mode == "int" {
		res.Mode = "int"
	}
	ex := newExec(P, fn, spec, thorough)
	res.Ex = ex
	defer func() {
		if r := recover(); r != nil {
			switch e := r.(type) {
			case unsupportedErr:
				res.Unsupported = e.msg
			case error:
				if strings.HasPrefix(e.Error(), "contract:") {
					res.ContractErr = e.Error()
				} else {
					panic(r)
				}
			default:
				panic(r)
			}
			res.Obls = ex.obls
		}
	}()
	fr := &Frame{ex: ex, fn: fn, spec: spec, vals: map[ssa.Value]*Val{}}
	st := &State{heaps: map[string]*HeapV{}, ctr: ex.ctr0, ghost: map[string]string{}, events: map[string]string{}}
	// parameters
	for _, p := range fn.Params {
		l := ex.ls.of(p.Type())
		if l.Kind == LUnsupported {
			panic(unsupported("parameter type " + p.Type().String()))
		}
		v := ex.freshVal(l, "p_"+p.Name())
		ex.assumeAllocated(l, v, ex.ctr0)
		if implicitNonNil(p) {
			ex.q.assume(not(eq(v.T, "nil")))
			ex.trusted[fmt.Sprintf("implicit precondition: pointer parameter %s of %s is non-nil (checked at analysed call sites)", p.Name(), shortKey(key))] = true
		}
		if _, isSig := p.Type().Underlying().(*types.Signature); isSig {
			ex.q.assume(not(eq(v.T, "nil")))
		}
		fr.vals[p] = v
		ex.inputs = append(ex.inputs, inputSym{p.Name(), p.Type(), v})
	}
	// preconditions
	mkCtx := func(s *State) *Ctx {
		cx := fr.baseCtx(s)
		cx.lookup = func(name string) (*Val, types.Type, bool) { return fr.frameLookup(name, cx.state(), nil) }
		return cx
	}
	if fn.Signature.Recv() != nil || (len(fn.Params) > 0 && fn.Signature.Recv() == nil && strings.HasPrefix(fn.RelString(nil), "(")) {
		for _, ti := range P.typeInvsFor(fn) {
			cx := mkCtx(st)
			cx.vals["self"] = fr.vals[fn.Params[0]]
			cx.types["self"] = fn.Params[0].Type()
			if !isConstructorLike(fn) {
				ex.q.assume(cx.evalBool(ti.Clause.Expr))
			}
		}
	}
	if spec != nil {
		for _, c := range spec.Requires {
			cx := mkCtx(st)
			ex.q.assume(cx.evalBool(c.Expr))
		}
	}
	// vacuity: the preconditions must be satisfiable
	fr.reach = map[*ssa.BasicBlock]string{}
	ex.obls = append(ex.obls, &Obl{Name: shortKey(key) + ":cover:requires#0", Kind: "cover", Pos: ex.q.pos(), Reach: "true", Cond: "false", Fn: key, Cover: true, Text: "preconditions satisfiable"})
	ret, out, retReach := fr.run("true", st)
	_ = ret
	if spec != nil || len(P.typeInvsFor(fn)) > 0 {
		// postconditions at the merged exit
		var resTuple *Val
		if ret != nil {
			resTuple = ret
		}
		mkPost := func() *Ctx {
			cx := mkCtx(out)
			cx.old = fr.entrySt
			cx.goal = true
			if resTuple != nil && fn.Signature.Results().Len() > 0 {
				cx.setResult(fn, resTuple)
			}
			return cx
		}
		// environment of the return block for ghost-lemma locals
		for _, b := range fn.Blocks {
			if len(b.Instrs) > 0 {
				if _, ok := b.Instrs[len(b.Instrs)-1].(*ssa.Return); ok && fr.envOut[b] != nil {
					fr.env = fr.envOut[b]
					fr.st = out
				}
			}
		}
		addPost := func(kind, name string, c *Clause, cond string) {
			if cond == "true" {
				return
			}
			o := &Obl{Name: shortKey(key) + ":" + kind + ":" + name + "#0", Kind: kind, Pos: ex.q.pos(), Reach: retReach, Cond: cond, Fn: key, Label: c.Label, Text: c.Src, Thor: c.Thor}
			ex.obls = append(ex.obls, o)
		}
		if spec != nil {
			for _, c := range spec.Ensures {
				if c.Thor && !thorough {
					continue
				}
				cx := mkPost()
				addPost("post", clauseName(c), c, cx.evalBool(c.Expr))
			}
		}
		for _, ti := range P.typeInvsFor(fn) {
			cx := mkPost()
			cx.vals["self"] = fr.vals[fn.Params[0]]
			cx.types["self"] = fn.Params[0].Type()
			addPost("objinv", clauseName(ti.Clause), ti.Clause, cx.evalBool(ti.Clause.Expr))
		}
		// reachability of the exit (vacuity guard for postconditions)
		ex.obls = append(ex.obls, &Obl{Name: shortKey(key) + ":cover:exit#0", Kind: "cover", Pos: ex.q.pos(), Reach: retReach, Cond: "false", Fn: key, Cover: true, Text: "function exit reachable"})
	}
	res.Obls = ex.obls
	return res
}

func isConstructorLike(fn *ssa.Function) bool { return false }

func shortKey(key string) string {
	key = strings.TrimPrefix(key, lalPrefix+"pkg/")
	key = strings.TrimPrefix(key, nazaPrefix+"pkg/")
	return key
}
