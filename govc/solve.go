package main

import (
	"bytes"
	"context"
	"crypto/sha256"
	"fmt"
	"os"
	"os/exec"
	"path/filepath"
	"regexp"
	"strings"
	"sync"
	"sync/atomic"
	"time"
)

type Verdict struct {
	AltEx  *Exec // set when the obligation was (also) tried in the other integer encoding: retry there
	AltObl *Obl
	Obl     *Obl
	Status  string // unsat | sat | unknown | timeout | error
	Solver  string
	Seconds float64
	Model   string
	Output  string
	File    string
}

type solverCfg struct {
	name string
	args func(file string, ms int, seed int) []string
	pre  string
}

var solvers = []solverCfg{
	{"z3-new", func(f string, ms, seed int) []string {
		return []string{"z3-new", fmt.Sprintf("-t:%d", ms), fmt.Sprintf("smt.random_seed=%d", seed), f}
	}, ""},
	{"z3", func(f string, ms, seed int) []string {
		return []string{"z3", fmt.Sprintf("-t:%d", ms), fmt.Sprintf("smt.random_seed=%d", seed), f}
	}, ""},
	{"cvc5", func(f string, ms, seed int) []string {
		return []string{"cvc5", fmt.Sprintf("--tlimit=%d", ms), "--full-saturate-quant", fmt.Sprintf("--seed=%d", seed), f}
	}, "(set-logic ALL)\n"},
}

func runSolver(ctx context.Context, sc solverCfg, file string, ms, seed int) (status, output string, secs float64) {
	args := sc.args(file, ms, seed)
	cctx, cancel := context.WithTimeout(ctx, time.Duration(ms+2000)*time.Millisecond)
	defer cancel()
	cmd := exec.CommandContext(cctx, args[0], args[1:]...)
	var out bytes.Buffer
	cmd.Stdout = &out
	cmd.Stderr = &out
	t0 := time.Now()
	_ = cmd.Run()
	secs = time.Since(t0).Seconds()
	output = out.String()
	if len(output) > 4000000 {
		output = output[:4000000]
	}
	first := ""
	for _, l := range strings.Split(output, "\n") {
		l = strings.TrimSpace(l)
		if l == "sat" || l == "unsat" || l == "unknown" || l == "timeout" {
			first = l
			break
		}
	}
	switch first {
	case "unsat", "sat", "unknown":
		return first, output, secs
	case "timeout":
		return "timeout", output, secs
	}
	if ctx.Err() != nil {
		return "cancelled", output, secs
	}
	if cctx.Err() != nil {
		return "timeout", output, secs
	}
	if strings.Contains(output, "interrupted") || strings.Contains(output, "timeout") {
		return "timeout", output, secs
	}
	return "error", output, secs
}

type Solver struct {
	dir         string
	seed        int
	quickMs     int // per-query budget of the race stages
	fullMs      int // last-resort budget
	sem         chan struct{}
	mu          *sync.Mutex
	perSolver   map[string]int
	solverSecs  float64
	fastOnly    bool
	nfile       int64
	maxCubes    int
	lastResort  bool // run the final full-budget race (thorough tier)
	slowApplied bool
	oblBudget   time.Duration // wall-clock cap per obligation for the expensive stages (0 = none)
	deadline    time.Time
}

func newSolver(dir string, seed, fullMs int, par int) *Solver {
	os.MkdirAll(dir, 0o755)
	return &Solver{dir: dir, seed: seed, quickMs: 2500, fullMs: fullMs, sem: make(chan struct{}, par), perSolver: map[string]int{}, maxCubes: 40, mu: &sync.Mutex{}}
}

func (ex *Exec) preludeText(o *Obl, relaxed bool) (string, bool) {
	var b strings.Builder
	b.WriteString(smtHeader(ex.ar.intMode, nil))
	dropped := false
	for _, l := range ex.q.lines[:o.Pos] {
		if relaxed && (strings.Contains(l, "(forall ") || strings.Contains(l, "(exists ")) {
			dropped = true
			continue
		}
		b.WriteString(l)
		b.WriteString("\n")
	}
	return b.String(), dropped
}

func (ex *Exec) queryText(o *Obl, withModel bool, pre string) string {
	p, _ := ex.preludeText(o, false)
	var b strings.Builder
	b.WriteString(pre)
	if withModel {
		b.WriteString("(set-option :produce-models true)\n")
	}
	b.WriteString(p)
	b.WriteString("(assert " + o.Reach + ")\n")
	if !o.Cover {
		b.WriteString("(assert (not " + o.Cond + "))\n")
	}
	b.WriteString("(check-sat)\n")
	if withModel {
		b.WriteString("(get-model)\n")
	}
	return b.String()
}

var symRe = regexp.MustCompile(`[A-Za-z_][A-Za-z0-9_.!]*`)

// slicedText: cone-of-influence slice of the prelude for one goal. Only the
// definitions the goal depends on are kept, together with the assumptions
// that mention a symbol of that cone (two rounds). Dropping assumptions only
// weakens the hypotheses, so unsat of the slice implies unsat of the query.
func (ex *Exec) slicedText(o *Obl, relaxed bool) string {
	lines := ex.q.lines[:o.Pos]
	type def struct {
		idx  int
		syms []string
	}
	defs := map[string]*def{}
	var asserts []int
	symsOf := func(s string) []string { return symRe.FindAllString(s, -1) }
	lineSyms := make([][]string, len(lines))
	for i, l := range lines {
		switch {
		case strings.HasPrefix(l, "(define-fun "):
			f := strings.SplitN(l[12:], " ", 2)
			lineSyms[i] = symsOf(f[1])
			defs[f[0]] = &def{i, lineSyms[i]}
		case strings.HasPrefix(l, "(assert "):
			if relaxed && hasQuant(l) {
				continue
			}
			lineSyms[i] = symsOf(l[8:])
			asserts = append(asserts, i)
		}
	}
	cone := map[string]bool{}
	keep := map[int]bool{}
	var visit func(sym string)
	visit = func(sym string) {
		if cone[sym] {
			return
		}
		cone[sym] = true
		if d, ok := defs[sym]; ok {
			keep[d.idx] = true
			for _, s := range d.syms {
				visit(s)
			}
		}
	}
	for _, s := range symsOf(o.Reach + " " + o.Cond) {
		visit(s)
	}
	for round := 0; round < 2; round++ {
		var add []int
		for _, i := range asserts {
			if keep[i] {
				continue
			}
			for _, s := range lineSyms[i] {
				if cone[s] && (strings.Contains(s, "!") || defs[s] != nil) {
					add = append(add, i)
					break
				}
			}
		}
		for _, i := range add {
			keep[i] = true
			for _, s := range lineSyms[i] {
				visit(s)
			}
		}
	}
	var b strings.Builder
	b.WriteString(smtHeader(ex.ar.intMode, nil))
	for i, l := range lines {
		if keep[i] || strings.HasPrefix(l, "(declare-") {
			b.WriteString(l)
			b.WriteString("\n")
		}
	}
	return b.String()
}

func hasQuant(s string) bool {
	return strings.Contains(s, "(forall ") || strings.Contains(s, "(exists ")
}

func (s *Solver) account(name string, secs float64, won bool) {
	s.mu.Lock()
	defer s.mu.Unlock()
	s.solverSecs += secs
	if won {
		s.perSolver[name]++
	}
}

func (s *Solver) tmpFile(text string) string {
	n := atomic.AddInt64(&s.nfile, 1)
	h := sha256.Sum256([]byte(text))
	f := filepath.Join(s.dir, fmt.Sprintf("q%d-%x.smt2", n, h[:6]))
	os.WriteFile(f, []byte(text), 0o644)
	return f
}

type raceRes struct {
	st, out, name string
	secs          float64
}

// race runs the given solvers on one query text; the first definitive answer
// (unsat, or sat when wantSat / trustSat) wins and the others are killed.
func (s *Solver) race(text string, which []int, ms int, lambda bool, accept func(st string) bool) raceRes {
	ctx, cancel := context.WithCancel(context.Background())
	defer cancel()
	file := s.tmpFile(text)
	defer os.Remove(file)
	ch := make(chan raceRes, len(which))
	n := 0
	for _, i := range which {
		sc := solvers[i]
		if sc.name == "cvc5" && lambda {
			continue
		}
		n++
		f := file
		if sc.pre != "" {
			f = file + "." + sc.name + ".smt2"
			os.WriteFile(f, []byte(sc.pre+text), 0o644)
			defer os.Remove(f)
		}
		go func(sc solverCfg, f string) {
			select {
			case s.sem <- struct{}{}:
			case <-ctx.Done():
				ch <- raceRes{"cancelled", "", sc.name, 0}
				return
			}
			st, out, secs := runSolver(ctx, sc, f, ms, s.seed)
			<-s.sem
			ch <- raceRes{st, out, sc.name, secs}
		}(sc, f)
	}
	best := raceRes{st: "unknown"}
	for k := 0; k < n; k++ {
		r := <-ch
		if r.st != "cancelled" {
			s.account(r.name, r.secs, accept(r.st))
		}
		if accept(r.st) {
			cancel()
			// drain
			go func(rest int) {
				for j := 0; j < rest; j++ {
					<-ch
				}
			}(n - k - 1)
			return r
		}
		switch {
		case r.st == "sat" && best.st != "sat":
			best = r
		case best.st == "unknown" && (r.st == "timeout" || r.st == "unknown"):
			if best.name == "" || r.st == "timeout" {
				best = r
			}
		case best.name == "" && r.st != "cancelled":
			best = r
		}
	}
	return best
}

func isUnsat(st string) bool { return st == "unsat" }

// solve decides one obligation (DESIGN §2.6, revised):
//  0. quantifier-free relaxation (assumptions with quantifiers dropped): unsat is definitive;
//  1. race of the solvers on the full query with a short budget;
//  2. conjunctive goals are proved conjunct by conjunct;
//  3. adaptive case split (cubes) on the branch conditions of the function;
//  4. one last race with the full budget.
func (s *Solver) solve(ex *Exec, o *Obl) *Verdict {
	v := &Verdict{Obl: o}
	t0 := time.Now()
	defer func() { v.Seconds = time.Since(t0).Seconds() }()
	if o.Slow && !s.slowApplied {
		s2 := *s
		s2.quickMs = s.quickMs * 6
		s2.slowApplied = true
		return s2.solve(ex, o)
	}
	if s.oblBudget > 0 && s.deadline.IsZero() {
		s2 := *s
		s2.deadline = time.Now().Add(s.oblBudget)
		return s2.solve(ex, o)
	}
	expired := func() bool { return !s.deadline.IsZero() && time.Now().After(s.deadline) }
	lam := ex.usesLambda
	all := []int{0, 1, 2}
	zs := []int{0, 1}
	if o.Cover {
		// vacuity query: expected sat. Decided on the relaxation when quantifiers are present
		p, _ := ex.preludeText(o, true)
		r := s.race(p+"(assert "+o.Reach+")\n(check-sat)\n", zs, s.fullMs, lam, func(st string) bool { return st == "sat" || st == "unsat" })
		v.Status, v.Solver, v.Output = r.st, r.name+"(qf-relaxed)", r.out
		return v
	}
	goal := "(assert " + o.Reach + ")\n(assert (not " + o.Cond + "))\n(check-sat)\n"
	// stage 0a: cone-of-influence slice
	{
		r := s.race(ex.slicedText(o, false)+goal, []int{0, 1}, s.quickMs, lam, isUnsat)
		if r.st == "unsat" {
			v.Status, v.Solver, v.Output = "unsat", r.name+"(sliced)", r.out
			return v
		}
	}
	// stage 0
	if !hasQuant(o.Cond) && !hasQuant(o.Reach) {
		if p, dropped := ex.preludeText(o, true); dropped {
			r := s.race(p+goal, []int{0}, s.quickMs, lam, isUnsat)
			if r.st == "unsat" {
				v.Status, v.Solver, v.Output = "unsat", r.name+"(qf-relaxed)", r.out
				return v
			}
		}
	}
	full, _ := ex.preludeText(o, false)
	trustSat := !ex.usesQuant && !ex.q.usesUF && !hasQuant(o.Cond)
	// stage 1
	r := s.race(full+goal, all, s.quickMs, lam, func(st string) bool { return st == "unsat" || (trustSat && st == "sat") })
	v.Status, v.Solver, v.Output = r.st, r.name, r.out
	if r.st == "unsat" || (r.st == "sat" && trustSat) {
		return v
	}
	if s.fastOnly {
		return v
	}
	keep := func() {
		// keep the query for inspection
		v.File = filepath.Join(s.dir, "open-"+sanitize(o.Name)+".smt2")
		if len(v.File) > 220 {
			v.File = v.File[:220] + ".smt2"
		}
		os.WriteFile(v.File, []byte(full+goal), 0o644)
	}
	if expired() {
		v.Status = "timeout"
		return v
	}
	// stage 2: conjuncts
	if parts := splitAnd(o.Cond); len(parts) > 1 && !o.noSplit {
		vs := make([]*Verdict, len(parts))
		var wg sync.WaitGroup
		for i, p := range parts {
			wg.Add(1)
			go func(i int, p string) {
				defer wg.Done()
				sub := *o
				sub.Cond = p
				sub.noSplit = true
				vs[i] = s.solve(ex, &sub)
			}(i, p)
		}
		wg.Wait()
		v.Status, v.Solver = "unsat", fmt.Sprintf("split(%d)", len(parts))
		for _, pv := range vs {
			if pv.Status != "unsat" {
				v.Status, v.Output, v.Solver = pv.Status, pv.Output, pv.Solver+" in conjunct"
				v.File = pv.File
			}
		}
		return v
	}
	// stage 3: cubes
	var conds []string
	for _, b := range ex.branches {
		if b.pos <= o.Pos {
			conds = append(conds, b.name)
		}
	}
	if len(conds) > 10 {
		conds = conds[len(conds)-10:]
	}
	if len(conds) > 0 && !expired() {
		var leaves int64
		st := s.cube(ex, full, goal, nil, conds, &leaves, lam, trustSat)
		if st == "unsat" {
			v.Status, v.Solver = "unsat", fmt.Sprintf("cubes(%d)", leaves)
			return v
		}
		if st == "sat" && trustSat {
			v.Status, v.Solver = "sat", "cubes"
			keep()
			return v
		}
	}
	// stage 4
	if !s.lastResort || expired() {
		v.Status = "timeout"
		keep()
		return v
	}
	r = s.race(full+goal, all, s.fullMs, lam, func(st string) bool { return st == "unsat" || (trustSat && st == "sat") })
	v.Status, v.Solver, v.Output = r.st, r.name, r.out
	if r.st != "unsat" {
		keep()
	}
	return v
}

// cube: prove prelude ∧ assumed ∧ goal unsat by adaptive case splitting on
// conds. Returns "unsat" only if every leaf is unsat.
func (s *Solver) cube(ex *Exec, prelude, goal string, assumed []string, conds []string, leaves *int64, lam, trustSat bool) string {
	if atomic.LoadInt64(leaves) > int64(s.maxCubes) || (!s.deadline.IsZero() && time.Now().After(s.deadline)) {
		return "timeout"
	}
	var b strings.Builder
	b.WriteString(prelude)
	for _, a := range assumed {
		b.WriteString("(assert " + a + ")\n")
	}
	b.WriteString(goal)
	if len(assumed) > 0 {
		atomic.AddInt64(leaves, 1)
		r := s.race(b.String(), []int{0, 1}, s.quickMs, lam, func(st string) bool { return st == "unsat" || (trustSat && st == "sat") })
		if r.st == "unsat" || (r.st == "sat" && trustSat) {
			return r.st
		}
	}
	if len(conds) == 0 || len(assumed) >= 8 {
		return "timeout"
	}
	c := conds[0]
	res := make([]string, 2)
	var wg sync.WaitGroup
	for i, lit := range []string{c, "(not " + c + ")"} {
		wg.Add(1)
		go func(i int, lit string) {
			defer wg.Done()
			res[i] = s.cube(ex, prelude, goal, append(append([]string{}, assumed...), lit), conds[1:], leaves, lam, trustSat)
		}(i, lit)
	}
	wg.Wait()
	for _, r := range res {
		if r == "sat" {
			return "sat"
		}
	}
	if res[0] == "unsat" && res[1] == "unsat" {
		return "unsat"
	}
	return "timeout"
}

// splitAnd flattens a top-level conjunction (and a b ...) into its conjuncts.
func splitAnd(c string) []string {
	c = strings.TrimSpace(c)
	if !strings.HasPrefix(c, "(and ") || !balanced(c[1:len(c)-1]) {
		return []string{c}
	}
	body := c[5 : len(c)-1]
	var parts []string
	depth := 0
	start := 0
	for i := 0; i < len(body); i++ {
		switch body[i] {
		case '(':
			depth++
		case ')':
			depth--
		case ' ':
			if depth == 0 {
				if i > start {
					parts = append(parts, body[start:i])
				}
				start = i + 1
			}
		}
	}
	if start < len(body) {
		parts = append(parts, body[start:])
	}
	var out []string
	for _, p := range parts {
		out = append(out, splitAnd(p)...)
	}
	return out
}

func (s *Solver) solveAll(ex *Exec, obls []*Obl) []*Verdict {
	out := make([]*Verdict, len(obls))
	var wg sync.WaitGroup
	for i, o := range obls {
		wg.Add(1)
		go func(i int, o *Obl) {
			defer wg.Done()
			out[i] = s.solve(ex, o)
		}(i, o)
	}
	wg.Wait()
	return out
}
