package main

import (
	"bytes"
	"context"
	"crypto/sha256"
	"fmt"
	"os"
	"os/exec"
	"path/filepath"
	"strings"
	"sync"
	"time"
)

type Verdict struct {
	Obl     *Obl
	Status  string // unsat | sat | unknown | timeout | error
	Solver  string
	Seconds float64
	Model   string
	Output  string
	File    string
}

type solverCfg struct {
	name string
	args func(file string, ms int, seed int) []string
	pre  string
}

var solvers = []solverCfg{
	{"z3-new", func(f string, ms, seed int) []string {
		return []string{"z3-new", fmt.Sprintf("-t:%d", ms), fmt.Sprintf("smt.random_seed=%d", seed), f}
	}, ""},
	{"z3", func(f string, ms, seed int) []string {
		return []string{"z3", fmt.Sprintf("-t:%d", ms), fmt.Sprintf("smt.random_seed=%d", seed), f}
	}, ""},
	{"cvc5", func(f string, ms, seed int) []string {
		return []string{"cvc5", fmt.Sprintf("--tlimit=%d", ms), "--full-saturate-quant", fmt.Sprintf("--seed=%d", seed), f}
	}, "(set-logic ALL)\n"},
}

func runSolver(ctx context.Context, sc solverCfg, file string, ms, seed int) (status, output string, secs float64) {
	args := sc.args(file, ms, seed)
	cctx, cancel := context.WithTimeout(ctx, time.Duration(ms+3000)*time.Millisecond)
	defer cancel()
	cmd := exec.CommandContext(cctx, args[0], args[1:]...)
	var out bytes.Buffer
	cmd.Stdout = &out
	cmd.Stderr = &out
	t0 := time.Now()
	_ = cmd.Run()
	secs = time.Since(t0).Seconds()
	output = out.String()
	first := strings.TrimSpace(strings.SplitN(output, "\n", 2)[0])
	switch first {
	case "unsat", "sat", "unknown":
		return first, output, secs
	case "timeout":
		return "timeout", output, secs
	}
	if cctx.Err() != nil {
		return "timeout", output, secs
	}
	if strings.Contains(output, "interrupted") || strings.Contains(output, "timeout") {
		return "timeout", output, secs
	}
	return "error", output, secs
}

type Solver struct {
	dir     string
	seed    int
	quickMs int
	fullMs  int
	sem     chan struct{}
	mu      sync.Mutex
	perSolver map[string]int
	solverSecs float64
}

func newSolver(dir string, seed, fullMs int, par int) *Solver {
	os.MkdirAll(dir, 0o755)
	return &Solver{dir: dir, seed: seed, quickMs: 2000, fullMs: fullMs, sem: make(chan struct{}, par), perSolver: map[string]int{}}
}

func (ex *Exec) queryText(o *Obl, withModel bool, pre string) string {
	var b strings.Builder
	b.WriteString(pre)
	if withModel {
		b.WriteString("(set-option :produce-models true)\n")
	}
	b.WriteString(smtHeader(ex.ar.intMode, nil))
	for _, l := range ex.q.lines[:o.Pos] {
		b.WriteString(l)
		b.WriteString("\n")
	}
	b.WriteString("(assert " + o.Reach + ")\n")
	if !o.Cover {
		b.WriteString("(assert (not " + o.Cond + "))\n")
	}
	b.WriteString("(check-sat)\n")
	if withModel {
		b.WriteString("(get-model)\n")
	}
	return b.String()
}

func (s *Solver) solve(ex *Exec, o *Obl) *Verdict {
	s.sem <- struct{}{}
	defer func() { <-s.sem }()
	text := ex.queryText(o, false, "")
	h := sha256.Sum256([]byte(text))
	file := filepath.Join(s.dir, fmt.Sprintf("%x.smt2", h[:8]))
	os.WriteFile(file, []byte(text), 0o644)
	v := &Verdict{Obl: o, File: file}
	// stage 1: z3-new, short timeout
	st, out, secs := runSolver(context.Background(), solvers[0], file, s.quickMs, s.seed)
	s.account(solvers[0].name, secs, st == "unsat" || (o.Cover && st == "sat"))
	v.Status, v.Solver, v.Seconds, v.Output = st, solvers[0].name, secs, out
	if st == "unsat" || (st == "sat" && o.Cover) {
		os.Remove(file)
		return v
	}
	if st == "sat" && !ex.usesQuant && !ex.q.usesUF {
		// quantifier-free: a model is definitive
		return v
	}
	// stage 2: race all solvers with the full timeout
	type res struct {
		st, out, name string
		secs          float64
	}
	ctx, cancel := context.WithCancel(context.Background())
	defer cancel()
	ch := make(chan res, len(solvers))
	files := []string{}
	for _, sc := range solvers {
		f := file
		if sc.pre != "" {
			f = file + "." + sc.name + ".smt2"
			os.WriteFile(f, []byte(sc.pre+text), 0o644)
			files = append(files, f)
		}
		go func(sc solverCfg, f string) {
			st, out, secs := runSolver(ctx, sc, f, s.fullMs, s.seed)
			ch <- res{st, out, sc.name, secs}
		}(sc, f)
	}
	best := res{st: "unknown"}
	for range solvers {
		r := <-ch
		s.account(r.name, r.secs, r.st == "unsat")
		if r.st == "unsat" || (o.Cover && r.st == "sat") {
			best = r
			break
		}
		if r.st == "sat" && best.st != "sat" {
			best = r
		} else if best.st == "unknown" && r.st == "timeout" {
			best = r
		} else if best.out == "" {
			best = r
		}
	}
	cancel()
	for _, f := range files {
		os.Remove(f)
	}
	v.Status, v.Solver, v.Seconds, v.Output = best.st, best.name, v.Seconds+best.secs, best.out
	if v.Status == "unsat" || (o.Cover && v.Status == "sat") {
		os.Remove(file)
	}
	return v
}

func (s *Solver) account(name string, secs float64, won bool) {
	s.mu.Lock()
	defer s.mu.Unlock()
	s.solverSecs += secs
	if won {
		s.perSolver[name]++
	}
}

func (s *Solver) solveAll(ex *Exec, obls []*Obl) []*Verdict {
	out := make([]*Verdict, len(obls))
	var wg sync.WaitGroup
	for i, o := range obls {
		wg.Add(1)
		go func(i int, o *Obl) {
			defer wg.Done()
			out[i] = s.solve(ex, o)
		}(i, o)
	}
	wg.Wait()
	return out
}
