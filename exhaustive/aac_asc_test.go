package aac

// Injected by /verif/govc (go test -overlay); never part of /repo.
// Exhaustive evaluation of the real AudioSpecificConfig / ADTS code over the complete domain of the
// 5+4+4-bit configuration (8192 values) and of the ADTS-representable subset.

import (
	"fmt"
	"os"
	"testing"
)

func TestVerifExhaustive(t *testing.T) {
	n, bad := 0, 0
	fail := func(format string, a ...interface{}) {
		if bad < 20 {
			fmt.Fprintf(os.Stdout, "VERIF-EXHAUSTIVE-FAIL: "+format+"\n", a...)
		}
		bad++
	}
	for aot := 0; aot < 32; aot++ {
		for sfi := 0; sfi < 16; sfi++ {
			for cc := 0; cc < 16; cc++ {
				n++
				func() {
					defer func() {
						if r := recover(); r != nil {
							fail("ASC (%d,%d,%d) panics: %v", aot, sfi, cc, r)
						}
					}()
					ctx := AscContext{AudioObjectType: uint8(aot), SamplingFrequencyIndex: uint8(sfi), ChannelConfiguration: uint8(cc)}
					asc := ctx.Pack()
					// ISO 14496-3 1.6.2.1: 5 bits object type, 4 bits sampling index, 4 bits channel configuration
					if len(asc) != 2 || asc[0] != uint8(aot<<3|sfi>>1) || asc[1] != uint8((sfi&1)<<7|cc<<3) {
						fail("ASC (%d,%d,%d) packs to % x", aot, sfi, cc, asc)
						return
					}
					var back AscContext
					if err := back.Unpack(asc); err != nil || back != ctx {
						fail("ASC (%d,%d,%d) unpacks to %+v err=%v", aot, sfi, cc, back, err)
					}
					// ADTS can carry object types 1..4, sampling index 0..12, channel configuration 0..7
					if aot >= 1 && aot <= 4 && sfi <= 12 && cc <= 7 {
						for _, fl := range []int{0, 1, 100, 8184} {
							h := ctx.PackAdtsHeader(fl)
							var ah AdtsHeaderContext
							if err := ah.Unpack(h); err != nil || ah.AscCtx != ctx || int(ah.AdtsLength) != fl+7 {
								fail("ADTS header of (%d,%d,%d) len %d reads back as %+v err=%v", aot, sfi, cc, fl, ah, err)
							}
							if h[0] != 0xFF || h[1]&0xF0 != 0xF0 {
								fail("ADTS syncword missing for (%d,%d,%d): % x", aot, sfi, cc, h)
							}
							asc2, err := MakeAscWithAdtsHeader(h)
							if err != nil || len(asc2) != 2 || asc2[0] != asc[0] || asc2[1] != asc[1] {
								fail("ASC rebuilt from the ADTS header of (%d,%d,%d) is % x, want % x", aot, sfi, cc, asc2, asc)
							}
						}
					}
				}()
			}
		}
	}
	fmt.Fprintf(os.Stdout, "VERIF-EXHAUSTIVE-DONE cases=%d failed=%d\n", n, bad)
}
