package mpegts

// Injected by /verif/govc (go test -overlay); never part of /repo.
// Exhaustive evaluation of the real PackPat/PackPmt over the complete set of codec classes
// (PackPmt depends on its arguments only through equality with RtmpCodecIdAvc/Hevc and
// RtmpSoundFormatAac/Opus), checked with an independent section parser and CRC-32/MPEG-2.

import (
	"fmt"
	"os"
	"testing"
)

func verifCrc32Mpeg2(b []byte) uint32 {
	crc := uint32(0xFFFFFFFF)
	for _, x := range b {
		crc ^= uint32(x) << 24
		for i := 0; i < 8; i++ {
			if crc&0x80000000 != 0 {
				crc = crc<<1 ^ 0x04C11DB7
			} else {
				crc <<= 1
			}
		}
	}
	return crc
}

// verifSection checks the TS packet framing of a PSI packet and returns the section bytes (table_id .. CRC).
func verifSection(p []byte, pid uint16) ([]byte, error) {
	if len(p) != 188 {
		return nil, fmt.Errorf("length %d, want 188", len(p))
	}
	if p[0] != 0x47 {
		return nil, fmt.Errorf("sync byte %#x", p[0])
	}
	if p[1]&0x40 == 0 {
		return nil, fmt.Errorf("payload_unit_start_indicator not set")
	}
	if got := uint16(p[1]&0x1F)<<8 | uint16(p[2]); got != pid {
		return nil, fmt.Errorf("pid %#x, want %#x", got, pid)
	}
	if p[3]&0x30 != 0x10 {
		return nil, fmt.Errorf("adaptation_field_control %#x, want payload only", p[3]&0x30)
	}
	ptr := int(p[4])
	s := 5 + ptr
	if s+3 > 188 {
		return nil, fmt.Errorf("pointer field out of range")
	}
	sl := int(p[s+1]&0x0F)<<8 | int(p[s+2])
	if p[s+1]&0x80 == 0 {
		return nil, fmt.Errorf("section_syntax_indicator not set")
	}
	if s+3+sl > 188 || sl < 9 {
		return nil, fmt.Errorf("section_length %d does not fit", sl)
	}
	sec := p[s : s+3+sl]
	if verifCrc32Mpeg2(sec) != 0 {
		return nil, fmt.Errorf("CRC-32 invalid (section % x)", sec)
	}
	for i := s + 3 + sl; i < 188; i++ {
		if p[i] != 0xFF {
			return nil, fmt.Errorf("byte %d after the section is %#x, want stuffing 0xFF", i, p[i])
		}
	}
	return sec, nil
}

func TestVerifExhaustive(t *testing.T) {
	n, bad := 0, 0
	fail := func(format string, a ...interface{}) {
		bad++
		fmt.Fprintf(os.Stdout, "VERIF-EXHAUSTIVE-FAIL: "+format+"\n", a...)
	}
	// PAT
	func() {
		defer func() {
			if r := recover(); r != nil {
				fail("PackPat panics: %v", r)
			}
		}()
		n++
		sec, err := verifSection(PackPat(), 0)
		if err != nil {
			fail("PackPat: %v", err)
			return
		}
		if sec[0] != 0x00 {
			fail("PackPat: table_id %#x", sec[0])
		}
		// one program, program_number 1 -> PMT pid
		body := sec[8 : len(sec)-4]
		if len(body) != 4 || uint16(body[2]&0x1F)<<8|uint16(body[3]) != PidPmt {
			fail("PackPat: program list % x does not map one program to the PMT pid %#x", body, PidPmt)
		}
	}()
	// PMT: every class of (video, audio) codec id
	videos := []int{-1, 0, 7, 12, 13, 99}  // none/unknown, AVC(7), HEVC(12), others
	audios := []int{-1, 0, 2, 7, 8, 10, 13, 99} // none/unknown, mp3, G711A/U, AAC(10), Opus(13), others
	for _, v := range videos {
		for _, a := range audios {
			func() {
				defer func() {
					if r := recover(); r != nil {
						fail("PackPmt(%d,%d) panics: %v", v, a, r)
					}
				}()
				n++
				sec, err := verifSection(PackPmt(v, a), PidPmt)
				if err != nil {
					fail("PackPmt(%d,%d): %v", v, a, err)
					return
				}
				if sec[0] != 0x02 {
					fail("PackPmt(%d,%d): table_id %#x", v, a, sec[0])
				}
				pil := int(sec[10]&0x0F)<<8 | int(sec[11])
				i := 12 + pil
				end := len(sec) - 4
				var types []uint8
				var pids []uint16
				for i+5 <= end {
					types = append(types, sec[i])
					pids = append(pids, uint16(sec[i+1]&0x1F)<<8|uint16(sec[i+2]))
					el := int(sec[i+3]&0x0F)<<8 | int(sec[i+4])
					i += 5 + el
				}
				if i != end {
					fail("PackPmt(%d,%d): elementary stream loop does not end at the CRC (at %d, want %d)", v, a, i, end)
				}
				var want []uint8
				var wantPid []uint16
				switch v {
				case 7:
					want, wantPid = append(want, 0x1b), append(wantPid, PidVideo)
				case 12:
					want, wantPid = append(want, 0x24), append(wantPid, PidVideo)
				}
				switch a {
				case 10:
					want, wantPid = append(want, 0x0f), append(wantPid, PidAudio)
				case 13:
					want, wantPid = append(want, 0x06), append(wantPid, PidAudio)
				}
				if fmt.Sprint(types) != fmt.Sprint(want) || fmt.Sprint(pids) != fmt.Sprint(wantPid) {
					fail("PackPmt(%d,%d): declares stream types %v on pids %v, want %v on %v", v, a, types, pids, want, wantPid)
				}
			}()
		}
	}
	fmt.Fprintf(os.Stdout, "VERIF-EXHAUSTIVE-DONE cases=%d failed=%d\n", n, bad)
}
