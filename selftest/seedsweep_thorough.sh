#!/bin/bash
# usage: selftest/seedsweep_thorough.sh <seed>...
# Like seedsweep.sh for the thorough tier: a claimed obligation that is not discharged by the thorough check under
# some VERIF_SEED on the unchanged tree is recorded in baseline/<id>.thorough.undecided (which overrides the claim
# in the thorough tier only).
set -u
cd "$(dirname "$0")/.."
props="${PROPS:-C01 C02 C03 C04 C06 C07 C08 C09 C10 C11 C12 C13 C14 C16 C17 C18 C19 C05}"
export GOFLAGS=-mod=mod GOPROXY=off GOSUMDB=off GOTOOLCHAIN=local
for seed in "$@"; do
  ev=$(mktemp -d /tmp/govc-ev-XXXXXX)
  for p in $props; do
    VERIF_SEED=$seed VERIF_EVIDENCE_DIR=$ev VERIF_REPLAY_DIR=$ev/replays ./bin/govc check $p --tier thorough > $ev/$p.log 2>&1
    grep "violated obligation:" $ev/$p.log | sed 's/^ *violated obligation: //' | while IFS= read -r line; do
      name="${line%% (*}"
      printf '%s\tseed sensitive in the thorough tier (VERIF_SEED=%s): not claimed there\n' "$name" "$seed" >> baseline/$p.thorough.undecided
      echo "seed $seed: $p thorough moved $name"
    done
    echo "seed $seed: $p $(grep -h 'thorough:' $ev/$p.log | cut -c1-140)"
  done
  rm -rf "$ev"
done
