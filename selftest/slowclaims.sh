#!/bin/bash
# usage: selftest/slowclaims.sh <threshold-seconds> [props...]
# Runs the quick check of each property with per-obligation records (-v) into a scratch evidence directory and
# moves every claimed obligation that took longer than the threshold on this (idle) machine from
# baseline/<id>.claimed to baseline/<id>.undecided ("slow on the reference machine"): such proofs are the ones
# that time out on a slower or loaded machine and would raise an alarm on the unchanged tree.
set -u
cd "$(dirname "$0")/.."
thr="$1"; shift
props="${*:-C01 C02 C03 C04 C05 C06 C07 C08 C09 C10 C11 C12 C13 C14 C16 C17 C18 C19}"
export GOFLAGS=-mod=mod GOPROXY=off GOSUMDB=off GOTOOLCHAIN=local
ev=$(mktemp -d /tmp/govc-ev-XXXXXX)
for p in $props; do
  VERIF_EVIDENCE_DIR=$ev VERIF_REPLAY_DIR=$ev/replays ./bin/govc check $p --tier quick -v >/dev/null 2>&1
  python3 - "$p" "$thr" "$ev" <<'PY'
import json,sys
p,thr,ev=sys.argv[1],float(sys.argv[2]),sys.argv[3]
d=json.load(open(f'{ev}/{p}.json'))
slow={s['name']:s['seconds'] for s in d['coverage']['samples'] if s.get('status','').startswith('unsat') and s.get('seconds',0)>thr}
cl=[l.rstrip('\n') for l in open(f'/verif/baseline/{p}.claimed') if l.strip()]
keep=[c for c in cl if c not in slow]
moved=[c for c in cl if c in slow]
if moved:
    open(f'/verif/baseline/{p}.claimed','w').write('\n'.join(keep)+'\n')
    with open(f'/verif/baseline/{p}.undecided','a') as f:
        for m in moved: f.write(f'{m}\tslow on the reference machine ({slow[m]:.1f}s): not claimed\n')
print(p,'claimed',len(cl),'moved',len(moved),[ (m[-60:],round(slow[m],1)) for m in moved][:8])
PY
done
rm -rf "$ev"
