# usage: bash selftest/seedprompt.sh Cnn "<scenarios to avoid / hints>" > /tmp/pr-Cnn.txt  (needs /tmp/prop-Cnn.txt with the property text and a scratch worktree /tmp/seedwt-Cnn);
# the sub-agent is then told only: "Read /tmp/pr-Cnn.txt and carry out the task".
p=$1; avoid="$2"
cat <<P
You are helping test a verification effort for the Go project q191201771/lal (a live-streaming server/library). You have your own scratch git worktree of the repository at /tmp/seedwt-$p (work ONLY there; never touch /repo or /verif, and do not read anything under /verif). The sandbox has no network; every shell call needs: export GOFLAGS=-mod=mod GOPROXY=off GOSUMDB=off GOTOOLCHAIN=local

Here is a semantic property that lal should satisfy:

$(cat /tmp/prop-$p.txt)

Task: produce ONE realistic change to lal's non-test source code (the kind of slip a maintainer could make in a refactor or "optimisation") that BREAKS this property while (a) the code still compiles (go build ./...), and (b) the existing test suite still passes (cd /tmp/seedwt-$p && go test -vet=off -count=1 -timeout 600s ./pkg/...). The breakage must need something specific to manifest — an unusual input or size, a multi-step sequence of operations, a boundary value, or two cooperating sites that each look fine alone — NOT something ordinary use exposes at once. Keep the change small (a few lines), in pkg/. $avoid

Also write a demonstration: a single Go test file (package-internal test, named demo_test.go, stating in a first-line comment "// place in: pkg/<dir>") that FAILS with your change and PASSES on the unchanged tree. Verify both facts yourself by running it in the worktree with and without the change (use "git diff > file" and "git apply -R file"; do NOT use git stash - it is shared between worktrees).

Deliver, in /tmp/seedout-$p/ : patch.diff (output of 'git diff' in the worktree, non-test files only, applying with 'git apply' to the unchanged HEAD), demo_test.go, and notes.txt (3-6 lines: what the change is, what is needed for it to manifest, what you ran and the results). Leave the worktree in the CHANGED state without the demo file in it. Be quick: aim to finish within 12 minutes; do not run the full test suite more than twice. Final answer: a 3-line summary.
P
