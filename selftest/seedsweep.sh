#!/bin/bash
# usage: selftest/seedsweep.sh [-j] <seed>...
# Runs every quick check on the unchanged tree under each VERIF_SEED (with -j: all checks at once, to load the
# machine) into a scratch evidence directory. A claimed obligation that is not discharged under some seed is moved
# from baseline/<id>.claimed to baseline/<id>.undecided ("seed/load sensitive"): on the unchanged tree such a
# failure can only be a solver instability, and an unstable proof must not be part of the claim.
set -u
cd "$(dirname "$0")/.."
par=0; if [ "${1:-}" = "-j" ]; then par=1; shift; fi
props="C01 C02 C03 C04 C05 C06 C07 C08 C09 C10 C11 C12 C13 C14 C16 C17 C18 C19"
export GOFLAGS=-mod=mod GOPROXY=off GOSUMDB=off GOTOOLCHAIN=local
for seed in "$@"; do
  ev=$(mktemp -d /tmp/govc-ev-XXXXXX)
  run() { VERIF_SEED=$seed VERIF_EVIDENCE_DIR=$ev VERIF_REPLAY_DIR=$ev/replays ./bin/govc check $1 --tier quick > $ev/$1.log 2>&1; }
  if [ $par = 1 ]; then for p in $props; do run $p & done; wait; else for p in $props; do run $p; done; fi
  for p in $props; do
    grep "violated obligation:" $ev/$p.log | sed 's/^ *violated obligation: //' | while IFS= read -r line; do
      name="${line%% (*}"
      if grep -qxF "$name" baseline/$p.claimed; then
        grep -vxF "$name" baseline/$p.claimed > $ev/c.tmp; mv $ev/c.tmp baseline/$p.claimed
        printf '%s\tseed/load sensitive (not discharged under VERIF_SEED=%s%s): not claimed\n' "$name" "$seed" "$([ $par = 1 ] && echo ', all checks concurrent')" >> baseline/$p.undecided
        echo "seed $seed: $p moved $name"
      else
        echo "seed $seed: $p UNEXPECTED $line"
      fi
    done
  done
  echo "seed $seed done: $(grep -h 'quick:' $ev/*.log | grep -vc ' 0 violations')" checks with violations
  rm -rf "$ev"
done
