#!/bin/bash
# usage: selftest/seedtest.sh <Cnn> <i> [props-to-check...]
# Verifies the seeded change /verif/seeded/<Cnn>-<i>/{patch.diff,demo_test.go} in a scratch worktree of /repo
# HEAD (removed afterwards): existing tests pass with it, the demo fails with it and passes without it;
# then runs the quick check of the property (or of the listed properties) against the changed tree and
# reports CAUGHT/MISSED with the violated obligations. Never touches /repo's working tree.
set -u
id="$1"; i="$2"; shift 2; props="${*:-$id}"
export GOFLAGS=-mod=mod GOPROXY=off GOSUMDB=off GOTOOLCHAIN=local
sd=/verif/seeded/$id-$i
diff=$sd/patch.diff; demo=$sd/demo_test.go
[ -f "$diff" ] || { echo "no $diff"; exit 2; }
wt=$(mktemp -d /tmp/govc-seed-XXXXXX)
git -C /repo worktree add -q --detach "$wt" HEAD >/dev/null 2>&1
dir=$(jq -r '.demo_dir // empty' $sd/meta.json 2>/dev/null)
[ -n "$dir" ] || dir=$(head -3 "$demo" | grep -o 'place in: *[^ ]*' | sed 's/place in: *//' | head -1)
res=""
if [ -n "$dir" ] && [ -z "${SEED_SKIP_DEMO:-}" ]; then
  cp "$demo" "$wt/$dir/zz_seed_demo_test.go"
  ( cd "$wt" && go test -vet=off -count=1 -timeout 300s ./$dir/ >/tmp/seed-$id-$i.nochange.log 2>&1 ) && res="$res demo-passes-without" || res="$res DEMO-FAILS-WITHOUT"
  rm -f "$wt/$dir/zz_seed_demo_test.go"
fi
if ! git -C "$wt" apply "$diff" 2>/tmp/seed-$id-$i.apply.log; then echo "$id/$i: patch does not apply: $(head -2 /tmp/seed-$id-$i.apply.log)"; git -C /repo worktree remove --force "$wt"; exit 2; fi
if [ -z "${SEED_SKIP_DEMO:-}" ]; then
  ( cd "$wt" && go build ./... >/tmp/seed-$id-$i.build.log 2>&1 && go test -vet=off -count=1 -timeout 600s ./pkg/... >/tmp/seed-$id-$i.tests.log 2>&1 ) && res="$res tests-pass-with" || res="$res TESTS-FAIL-WITH"
  if [ -n "$dir" ]; then
    cp "$demo" "$wt/$dir/zz_seed_demo_test.go"
    ( cd "$wt" && go test -vet=off -count=1 -timeout 300s ./$dir/ >/tmp/seed-$id-$i.change.log 2>&1 ) && res="$res DEMO-PASSES-WITH" || res="$res demo-fails-with"
    rm -f "$wt/$dir/zz_seed_demo_test.go"
  fi
fi
for p in $props; do
  o=$(cd /verif && VERIF_REPO="$wt" VERIF_EVIDENCE_DIR="$wt/.evidence" VERIF_REPLAY_DIR="$wt/.replays" ${GOVC:-./bin/govc} check "$p" --tier "${SEED_TIER:-quick}" 2>&1); rc=$?
  nv=$(echo "$o" | grep -c '^VIOLATION')
  echo "$o" | grep -E "violated obligation|^VIOLATION" | head -6 | cut -c1-300 > /tmp/seed-$id-$i.$p.caught
  if [ $rc -eq 1 ] && [ $nv -gt 0 ]; then res="$res | $p: CAUGHT ($nv)"; else res="$res | $p: MISSED (rc=$rc)"; fi
done
echo "$id/$i:$res"
git -C /repo worktree remove --force "$wt"
