#!/bin/bash
# usage: selftest/seedtest.sh <Cnn> <i> [props-to-check...]
# Verifies a sub-agent's seeded change /tmp/seed-<Cnn>-out/change<i>.diff + demo<i>_test.go in a scratch
# worktree (removed afterwards): existing tests pass with it, the demo fails with it and passes without it;
# then runs the property's quick check against the changed tree and reports CAUGHT/MISSED.
set -u
id="$1"; i="$2"; shift 2; props="${*:-$id}"
export GOFLAGS=-mod=mod GOPROXY=off GOSUMDB=off GOTOOLCHAIN=local
out=/tmp/seed-$id-out
diff=$out/change$i.diff; demo=$out/demo${i}_test.go
[ -f "$diff" ] || { echo "no $diff"; exit 2; }
wt=$(mktemp -d /tmp/govc-seed-XXXXXX)
git -C /repo worktree add -q --detach "$wt" HEAD >/dev/null 2>&1
dir=$(head -3 "$demo" | grep -o 'place in: *[^ ]*' | sed 's/place in: *//' | head -1)
[ -n "$dir" ] || dir=$(grep -l . /dev/null; echo "")
res=""
# demo without the change
cp "$demo" "$wt/$dir/zz_seed_demo_test.go"
( cd "$wt" && go test -vet=off -count=1 -timeout 300s ./$dir/ >/tmp/seed-$id-$i.nochange.log 2>&1 ) && res="$res demo-passes-without" || res="$res DEMO-FAILS-WITHOUT"
rm -f "$wt/$dir/zz_seed_demo_test.go"
if ! git -C "$wt" apply "$diff" 2>/tmp/seed-$id-$i.apply.log; then echo "$id/$i: patch does not apply: $(cat /tmp/seed-$id-$i.apply.log | head -2)"; git -C /repo worktree remove --force "$wt"; exit 2; fi
( cd "$wt" && go build ./... >/tmp/seed-$id-$i.build.log 2>&1 && go test -vet=off -count=1 -timeout 600s ./pkg/... >/tmp/seed-$id-$i.tests.log 2>&1 ) && res="$res tests-pass-with" || res="$res TESTS-FAIL-WITH"
cp "$demo" "$wt/$dir/zz_seed_demo_test.go"
( cd "$wt" && go test -vet=off -count=1 -timeout 300s ./$dir/ >/tmp/seed-$id-$i.change.log 2>&1 ) && res="$res DEMO-PASSES-WITH" || res="$res demo-fails-with"
rm -f "$wt/$dir/zz_seed_demo_test.go"
for p in $props; do
  o=$(cd /verif && VERIF_REPO="$wt" VERIF_EVIDENCE_DIR="$wt/.evidence" VERIF_REPLAY_DIR="$wt/.replays" ./bin/govc check "$p" --tier quick 2>&1); rc=$?
  nv=$(echo "$o" | grep -c '^VIOLATION')
  if [ $rc -eq 1 ] && [ $nv -gt 0 ]; then res="$res | $p: CAUGHT ($nv)"; echo "$o" | grep "violated obligation" | head -4 | cut -c1-250 > /tmp/seed-$id-$i.$p.caught; else res="$res | $p: MISSED (rc=$rc)"; fi
done
echo "$id/$i:$res"
git -C /repo worktree remove --force "$wt"
