#!/bin/bash
# Must-fail corpus: every patch in selftest/mutants/<Cnn>-*.patch is applied to a scratch
# worktree of /repo (outside /repo and /verif, removed afterwards) and the property's quick
# check must exit 1 with a VIOLATION line. Usage: selftest/run.sh [pattern]
set -u
cd "$(dirname "$0")/.."
pat="${1:-}"
fail=0
for p in selftest/mutants/*${pat}*.patch; do
  prop=$(basename "$p" | cut -d- -f1)
  wt=$(mktemp -d /tmp/govc-mutant-XXXXXX)
  git -C /repo worktree add -q --detach "$wt" HEAD >/dev/null 2>&1
  if ! git -C "$wt" apply "$(pwd)/$p" 2>/dev/null; then echo "SKIP $p (does not apply)"; git -C /repo worktree remove --force "$wt"; continue; fi
  out=$(VERIF_REPO="$wt" VERIF_DIR="$(pwd)" VERIF_EVIDENCE_DIR="$wt/.evidence" ./bin/govc check "$prop" --tier quick 2>&1); rc=$?
  if [ $rc -eq 1 ] && echo "$out" | grep -q "^VIOLATION property=$prop"; then echo "CAUGHT $p: $(echo "$out" | grep -c '^VIOLATION') violation(s)"; else echo "MISSED $p (exit $rc)"; fail=1; fi
  git -C /repo worktree remove --force "$wt"
done
exit $fail
