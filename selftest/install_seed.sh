#!/bin/bash
# copies /tmp/seedout-Cnn/{patch.diff,demo_test.go,notes.txt} to seeded/Cnn-i/, removes the agent worktree, runs seedtest.sh
# usage: install_seed.sh Cnn i [props]
p=$1; i=$2; shift 2; sd=/verif/seeded/$p-$i; mkdir -p $sd
cp /tmp/seedout-$p/patch.diff $sd/patch.diff; cp /tmp/seedout-$p/demo_test.go $sd/demo_test.go; cp /tmp/seedout-$p/notes.txt $sd/notes.txt 2>/dev/null
dir=$(head -3 $sd/demo_test.go | grep -o 'place in: *[^ ]*' | sed 's/place in: *//' | head -1)
jq -n --arg p $p --arg d "$dir" '{property:$p, demo_dir:$d}' > $sd/meta.json
git -C /repo worktree remove --force /tmp/seedwt-$p 2>/dev/null
cd /verif && selftest/seedtest.sh $p $i "$@"
for q in ${*:-$p}; do cat /tmp/seed-$p-$i.$q.caught; done
